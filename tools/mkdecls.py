"""(Re)generate the `decl "<line>"` anchors of every contracts/*.vspec from the CURRENT /repo tree: for each identifier that the
contract clauses or proof aids mention and that occurs in the function's text, the first source line that mentions it.  The weaver
uses them only to recognise consistent renames of locals / parameters (tools/weave.py).  Run after editing contracts, commit the result."""
import os, re, sys
sys.path.insert(0, os.path.dirname(os.path.abspath(__file__)))
import weave
from rsx import norm
VERIF = weave.VERIF if hasattr(weave, 'VERIF') else os.path.dirname(os.path.dirname(os.path.abspath(__file__)))
W = weave.Weaver('/repo')
n_files = 0
for f in sorted(os.listdir(os.path.join(VERIF, 'contracts'))):
    if not f.endswith('.vspec'):
        continue
    path = os.path.join(VERIF, 'contracts', f)
    raw = open(path).read()
    if re.search(r'^macro ', raw, re.M):
        continue
    try:
        spec = weave.parse_vspec(path)
        file, segs = weave.parse_source_path(spec['source'])
        S = W.src(file)
        it = S.find(segs)
    except Exception as e:
        print('skip', f, e)
        continue
    text = S.slice(it['start'], it['end'])
    words = set()
    parts = [c['text'] for c in spec['requires'] + spec['ensures']] + [a['text'] for a in spec['ats']] + \
            [v['text'] for v in spec['loops'].values()] + [v['text'] for v in spec['closures'].values()]
    for sec in (spec['entry'], spec['tail'], spec['decreases']):
        if sec:
            parts.append(sec['text'])
    for t in parts:
        words.update(re.findall(r'(?<![\w.])[a-z_][a-z0-9_]*\b', t))
    words -= weave.RUST_KW
    # type names, and names that never occur in a binder position, are not locals: a changed type or callee is not a rename
    words -= set('i8 i16 i32 i64 i128 isize u8 u16 u32 u64 u128 usize f32 f64 bool char str int nat string vec option result some none ok err'.split())
    lines = text.split('\n')
    decls = []
    for w_ in sorted(words):
        if w_.startswith('__') or len(w_) < 1:
            continue
        w_e = re.escape(w_)
        binder = re.compile(r'\blet\s+(?:mut\s+)?\(?[^=;]*\b%s\b[^=;]*=|\b(?:mut|ref)\s+%s\b|\b%s\s*:(?!:)|\|[^|]*\b%s\b[^|]*\||\bfor\s+\(?[^{]*\b%s\b[^{]*\bin\b|[(,]\s*%s\s*[),]|\b%s\s*@|=>' % ((w_e,) * 7))
        if not any(re.search(r'(?<![\w.])%s\b' % w_e, ln) and binder.search(ln) and not re.search(r'\b%s\s*(?:\(|::|!)' % w_e, ln) for ln in lines):
            continue
        rx = re.compile(r'(?<![\w.])%s\b(?!\s*(?:\(|::|!))' % w_e)
        for ln in lines:
            st = ln.strip()
            if rx.search(ln) and not st.startswith('//'):
                # a name that only occurs as a method / path segment is not a binder
                if st and st not in decls and len(st) < 200 and '"' not in st:
                    decls.append(st)
                break
    body = '\n'.join(l for l in raw.split('\n') if not l.startswith('decl '))
    body = body.rstrip('\n') + '\n' + ''.join('decl "%s"\n' % d.replace('\\', '\\\\') for d in decls)
    if body != raw:
        open(path, 'w').write(body)
        n_files += 1
print('decl anchors refreshed in %d contract files' % n_files)
