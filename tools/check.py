"""Property-level driver:  bin/check <ID> [--tier quick|thorough] [--replay <file>]

exit 0  every obligation owned by the property was discharged on /repo's current tree
        (known findings are printed as KNOWN-FINDING lines and excepted)
exit 1  an obligation failed:  VIOLATION property=<id> replay=<path> [no-failing-input-found]
exit 2  undecided (lost anchor, unsupported construct, resource limit, tool failure): UNDECIDED ...
"""
import argparse
import json
import os
import re
import sys
import time

sys.path.insert(0, os.path.dirname(os.path.abspath(__file__)))
import vrun  # noqa: E402
import krun  # noqa: E402
from props import PROPS  # noqa: E402

VERIF = vrun.VERIF


def norm(s):
    return re.sub(r'\s+', ' ', s or '').strip()


def load_known():
    p = os.path.join(VERIF, 'known_findings.json')
    if not os.path.exists(p):
        return dict(findings=[], fixed=[])
    return json.load(open(p))


def finding_matches(f, v):
    """a finding names: property, engine, obligation (label or kind), unit/harness, and the failing site text
    (verus) or input region (kani).  Every named field must match."""
    if f['property'] != v['property'] or f.get('engine') != v['engine']:
        return False
    if f['engine'] == 'verus':
        # a finding without `site_text` names a whole contract clause (every exit at which that clause fails)
        return (f.get('unit') == v.get('unit') and f.get('obligation') == v.get('obligation')
                and ('site_text' not in f or norm(f.get('site_text')) == norm(v.get('site_text'))))
    if f['engine'] == 'kani':
        return f.get('harness') == v.get('harness')
    return False


def main(argv=None):
    ap = argparse.ArgumentParser()
    ap.add_argument('prop')
    ap.add_argument('--tier', default=os.environ.get('VERIF_TIER', 'quick'), choices=['quick', 'thorough'])
    ap.add_argument('--repo', default=os.environ.get('VERIF_REPO', '/repo'))
    ap.add_argument('--replay', default=None)
    ap.add_argument('--no-kani', action='store_true')
    a = ap.parse_args(argv)
    pid = a.prop
    if a.replay:
        return do_replay(a.replay, a.repo)
    if pid not in PROPS:
        print('UNDECIDED property=%s reason=not-claimed' % pid)
        return 2
    P = PROPS[pid]
    seed = int(os.environ.get('VERIF_SEED', '0') or 0)
    t0 = time.time()
    known = load_known()
    violations = []     # dicts: property, engine, obligation, unit/harness, site, site_text, message, detail
    undecided = []
    groups = {}
    total_obl = 0
    unit_rows = []
    assumptions = list(P.get('assumptions', []))
    samples = []
    by_backend = {}
    # ------------------------------------------------------------------ Verus groups
    for g in P.get('verus_groups', []):
        r = vrun.run_group(g, repo=a.repo, seed=seed, outdir=os.path.join(os.environ.get('VERIF_BUILD') or os.path.join(VERIF, 'build'), pid))
        if r['status'] != 'ok' and r['status'] == 'undecided' and not r.get('diags'):
            # one retry with a larger resource limit and another seed separates flakiness from failure
            if r.get('reason') and re.search(r'[Rr]esource limit|rlimit', r['reason']):
                r = vrun.run_group(g, repo=a.repo, seed=seed + 1, rlimit=600, outdir=os.path.join(os.environ.get('VERIF_BUILD') or os.path.join(VERIF, 'build'), pid))
        groups[g] = r
        if r['status'] != 'ok':
            undecided.append('verus group %s: %s' % (g, r['reason']))
        mp = r.get('map')
        if not mp:
            continue
        by_backend.setdefault('verus/z3', dict(seconds=0.0, groups=[]))
        by_backend['verus/z3']['seconds'] += r['time_s']
        by_backend['verus/z3']['groups'].append(dict(group=g, verified_functions=r.get('verified'), failed_functions=r.get('errors'),
                                                      smt_ms=r.get('smt_ms'), wall_s=r['time_s'], cmd=r.get('cmd')))
        for s in r.get('assumptions', []):
            assumptions.append('[%s] %s' % (g, s))
        # units that carry this property
        own_units = set()
        def label_props(lb):
            m_ = re.match(r'([C0-9+]+)\.', lb['label'] or '')
            if m_:
                return m_.group(1).split('+')
            if (lb['label'] or '').startswith('*.'):
                for u_ in mp['units']:
                    if u_['unit'] == lb['unit']:
                        return list(u_.get('props_internal', []))
            return []
        for lb in mp['labels']:
            if lb['label'] and pid in label_props(lb):
                own_units.add(lb['unit'])
        for u in mp['units']:
            if u['mode'] == 'verify' and (pid in u['props_safety'] or pid in u['props_internal']):
                own_units.add(u['unit'])
        for u in mp['units']:
            if u['unit'] in own_units and u['mode'] == 'verify':
                n = r.get('obligations', {}).get(u['unit'], 0)
                total_obl += n
                unit_rows.append(dict(unit=u['unit'], group=g, source='%s :: %s' % (u['file'], u['item']), src_line=u['src_line'],
                                      sha256=u['sha256'], rules=['%s: %s' % (a_, b_) for a_, b_ in u['rules']], obligations=n,
                                      labels=[lb['label'] for lb in mp['labels'] if lb['unit'] == u['unit'] and lb['label']
                                              and pid in label_props(lb)]))
        if g in P.get('lemma_groups', []):
            # property-level lemmas over the spec functions (contract |= property): every proof fn of the group counts
            n = r.get('obligations_prelude', 0)
            total_obl += n
            unit_rows.append(dict(unit='lemmas of group %s' % g, group=g, source='prelude/*.rs (spec-level proof functions, no code)', obligations=n,
                                  labels=P.get('lemma_names', [])))
            try:
                gen = open(r.get('file') or os.path.join(os.environ.get('VERIF_BUILD') or os.path.join(VERIF, 'build'), pid, g + '.rs')).read()
            except OSError:
                gen = ''
            lost = [l for l in P.get('lemma_names', []) if not re.search(r'\bfn %s\b' % re.escape(l), gen)]
            if lost and r['status'] == 'ok':
                undecided.append('lemma(s) missing from group %s: %s' % (g, ', '.join(lost)))
        for lb in mp['labels']:
            if lb['label'] and pid in label_props(lb) and len(samples) < 6:
                samples.append(dict(obligation=lb['label'], unit=lb['unit'], kind=lb['kind'], clause=lb['text'][:300], backend='verus/z3'))
        for c in r.get('diags', []):
            if pid in c['props']:
                violations.append(dict(property=pid, engine='verus', group=g, unit=c['unit'], obligation=c['label'] or c['kind'],
                                       site=c['src'], site_text=c['src_text'], message=c['message'], detail=c['rendered']))
    # inventory: the labels this property expects must all have been woven
    inv_path = os.path.join(VERIF, 'contracts', 'inventory.json')
    inv = json.load(open(inv_path)).get(pid, []) if os.path.exists(inv_path) else []
    present = set()
    for g, r in groups.items():
        if r.get('map'):
            present.update(lb['label'] for lb in r['map']['labels'] if lb['label'])
    missing = [l for l in inv if l not in present]
    if missing and not undecided:
        undecided.append('inventory shortfall: %s' % ', '.join(missing[:5]))
    # ------------------------------------------------------------------ Kani harnesses
    hs = list(P.get('kani_quick', []))
    if a.tier == 'thorough':
        hs += [h for h in P.get('kani_thorough', []) if h not in hs]
    kres = None
    if hs and not a.no_kani:
        # the quick tier's harnesses take 1-4 minutes on the unchanged tree; a changed tree on which CBMC does not come back within the limit is
        # undecided for Kani (never a pass), and the check stays usable on every change
        kres = krun.run(hs, repo=a.repo, jobs=int(os.environ.get('VERIF_JOBS', '12')), playback=True,
                        timeout=int(os.environ.get('VERIF_KANI_TIMEOUT', '900' if a.tier == 'quick' else '5400')))
        by_backend['kani/cbmc'] = dict(seconds=kres['time_s'], harnesses=kres['results'], cmd=kres['cmd'])
        if kres['status'] != 'ok':
            undecided.append('kani: %s' % kres['reason'])
        for h, res in kres['results'].items():
            total_obl += 1
            if len(samples) < 10:
                samples.append(dict(obligation=h, backend='kani/cbmc', result=res, kind='loop-free full-domain harness'))
            if res == 'FAILURE':
                pb = kres['playback'].get(h) or {}
                violations.append(dict(property=pid, engine='kani', harness=h, obligation=h, bytes=pb.get('bytes'),
                                       message='; '.join(pb.get('failed_checks', [])[:3]), detail=kres.get('log', '')[-1500:]))
    # ------------------------------------------------------------------ thorough tier: solver-seed stability + seeded self-test
    stability = []
    self_test = []
    if a.tier == 'thorough' and not os.environ.get('VERIF_NO_SELFTEST'):
        for extra_seed in (seed + 1, seed + 2):
            for g in P.get('verus_groups', []):
                r2 = vrun.run_group(g, repo=a.repo, seed=extra_seed, log_air=False,
                                    outdir=os.path.join(os.environ.get('VERIF_BUILD') or os.path.join(VERIF, 'build'), pid + '-seed'))
                bad = [c for c in r2.get('diags', []) if pid in c['props']]
                stability.append(dict(group=g, seed=extra_seed, status=r2['status'], failing=len(bad)))
                base_bad = [c for c in groups[g].get('diags', []) if pid in c['props']]
                if (r2['status'] != groups[g]['status']) or (len(bad) > 0) != (len(base_bad) > 0):
                    undecided.append('verdict of group %s is not stable under solver seed %d' % (g, extra_seed))
        sd = os.path.join(VERIF, 'seeded')
        if os.path.abspath(a.repo) == '/repo' and os.path.isdir(sd):
            import subprocess
            for n in sorted(os.listdir(sd)):
                if n.startswith(pid + '-') and os.path.exists(os.path.join(sd, n, 'patch.diff')):
                    pr = subprocess.run([sys.executable, os.path.join(VERIF, 'tools', 'mutants.py'), n], stdout=subprocess.PIPE, stderr=subprocess.STDOUT, text=True,
                                        env=dict(os.environ, VERIF_NO_SELFTEST='1'))
                    line = [l for l in pr.stdout.split('\n') if l.startswith(n)]
                    self_test.append(dict(seeded_change=n, outcome=(line[-1] if line else pr.stdout[-300:])[:400]))
    # ------------------------------------------------------------------ verdict
    EVDIR = os.environ.get('VERIF_EVIDENCE') or os.path.join(VERIF, 'evidence')
    os.makedirs(os.path.join(EVDIR, 'replay'), exist_ok=True)
    printed = []
    new_viol = []
    known_hits = []
    for v in violations:
        hit = None
        for f in known.get('findings', []):
            if finding_matches(f, v):
                hit = f
                break
        if hit:
            known_hits.append((hit, v))
        else:
            new_viol.append(v)
    rc = 0
    replay_bin = None
    n = 0
    for hit, v in known_hits:
        line = 'KNOWN-FINDING: property=%s %s' % (pid, hit['text'])
        if line not in printed:
            printed.append(line)
    for v in new_viol:
        n += 1
        rp = os.path.join(EVDIR, 'replay', '%s-%d.json' % (pid, n))
        rec = dict(v)
        rec['tier'] = a.tier
        nofail = True
        if v['engine'] == 'kani' and v.get('bytes'):
            if replay_bin is None:
                replay_bin, err = krun.prepare_replay(a.repo)
            if replay_bin:
                rr = krun.replay_harness(replay_bin, v['harness'], v['bytes'])
                rec['replay_on_real_code'] = rr
                rec['inputs_le_hex'] = [bytes(b).hex() for b in v['bytes']]
                if rr['rc'] == 1 and 'REPLAY-FAIL' in rr['out']:
                    nofail = False
                    rec['confirmed_on_real_code'] = True
            else:
                rec['replay_build_error'] = err
        rec['how_to_rerun'] = 'bin/check %s --replay %s' % (pid, rp)
        json.dump(rec, open(rp, 'w'), indent=1)
        printed.append('VIOLATION property=%s replay=%s%s' % (pid, rp, ' no-failing-input-found' if nofail else ''))
        rc = 1
    if undecided and rc == 0:
        rc = 2
        for u in undecided:
            printed.append('UNDECIDED property=%s reason=%s' % (pid, u[:400]))
    # obligations failing exactly as listed in known_findings.json are reported (KNOWN-FINDING lines) and are NOT part of the claim:
    # `obligations` counts what this run claims, `discharged` how many of those the verifiers accepted
    generated_obl = total_obl
    total_obl = max(0, total_obl - len(known_hits))
    discharged = max(0, total_obl - len(new_viol))
    wall = round(time.time() - t0, 2)
    level = P['level']
    ev = dict(property_id=pid, tier=a.tier, seed=seed, level=level, wall_s=wall, violations=len(new_viol),
              coverage=dict(obligations=total_obl, discharged=discharged,
                            checker_cmd='; '.join([r.get('cmd', '') for r in groups.values() if r.get('cmd')] + ([kres['cmd']] if kres else [])) or 'none',
                            trusted_base=P.get('trusted_base', []) + ['Verus 0.2026.09.13 + Z3', 'Kani 0.68 + CBMC 6.11', 'rustc front ends',
                                                                       'tools/{rsx,weave,vrun,krun}.py (extraction, rewrite rules, mapping)'],
                            functions_under_contract=unit_rows, by_backend=by_backend, samples=samples,
                            obligations_generated=generated_obl, known_finding_diagnostics=len(known_hits),
                            known_findings=sorted(set(h['text'] for h, _ in known_hits)), undecided=undecided,
                            explanation=P.get('explanation', ''), bounded=P.get('bounded', []), seed_stability=stability, seeded_self_test=self_test,
                            not_covered=P.get('not_covered', []),
                            dropped_by_extraction='#[cfg(test)] modules, doc comments, #[derive]/#[error]/#[inline]/#[cfg_attr]/#[non_exhaustive]/#[default] attributes (derived impls re-declared with assumed structural specs), every item not named by a //@item, //@verify or //@assume directive'),
              assumptions=sorted(set(assumptions)))
    if rc == 2:
        # an undecided run is no evidence for a proof: say so explicitly
        ev['coverage']['discharged'] = 0 if level == 'proof' else discharged
        ev['coverage']['explanation'] = 'UNDECIDED RUN: ' + '; '.join(undecided)
    json.dump(ev, open(os.path.join(EVDIR, pid + '.json'), 'w'), indent=1)
    for l in printed:
        print(l)
    print('%s tier=%s obligations=%d discharged=%d violations=%d known=%d undecided=%d wall=%.1fs -> exit %d' % (
        pid, a.tier, total_obl, discharged, len(new_viol), len(known_hits), len(undecided), wall, rc))
    return rc


def do_replay(path, repo):
    rec = json.load(open(path))
    print(json.dumps({k: rec[k] for k in rec if k not in ('detail',)}, indent=1)[:4000])
    if rec.get('engine') == 'kani' and rec.get('bytes'):
        b, err = krun.prepare_replay(repo)
        if not b:
            print('replay driver build failed:', err)
            return 2
        rr = krun.replay_harness(b, rec['harness'], rec['bytes'])
        print(rr['cmd'])
        print(rr['out'])
        return 1 if rr['rc'] == 1 else 0
    print(rec.get('detail', ''))
    print('no concrete input for this obligation (deductive failure): re-run the check to re-verify it')
    return 0


if __name__ == '__main__':
    sys.exit(main())
