"""Run Kani contract harnesses (kani/src/*.rs) against the real crates of the repository."""
import hashlib
import os
import re
import shutil
import subprocess
import sys
import time

VERIF = os.path.dirname(os.path.dirname(os.path.abspath(__file__)))
CACHE = os.path.join(VERIF, '.cache')


def prepare(repo):
    tag = hashlib.sha1(os.path.abspath(repo).encode()).hexdigest()[:10]
    work = os.path.join(CACHE, 'kani-work-' + tag)
    os.makedirs(os.path.join(work, '.cargo'), exist_ok=True)
    toml = open(os.path.join(VERIF, 'kani', 'Cargo.toml.in')).read().replace('@REPO@', os.path.abspath(repo))
    _write_if_changed(os.path.join(work, 'Cargo.toml'), toml)
    _write_if_changed(os.path.join(work, '.cargo', 'config.toml'),
                      '[net]\noffline = true\n[build]\ntarget-dir = "%s"\n' % os.path.join(CACHE, 'kani-target-' + tag))
    src = os.path.join(work, 'src')
    os.makedirs(src, exist_ok=True)
    for f in os.listdir(os.path.join(VERIF, 'kani', 'src')):
        _write_if_changed(os.path.join(src, f), open(os.path.join(VERIF, 'kani', 'src', f)).read())
    lock = os.path.join(repo, 'Cargo.lock')
    if os.path.exists(lock) and not os.path.exists(os.path.join(work, 'Cargo.lock')):
        shutil.copy(lock, os.path.join(work, 'Cargo.lock'))
    return work


def harness_names():
    """(module, name) of every harness in kani/src/*.rs"""
    res = []
    d = os.path.join(VERIF, 'kani', 'src')
    for f in sorted(os.listdir(d)):
        if not f.endswith('.rs') or f in ('lib.rs', 'sym.rs'):
            continue
        txt = open(os.path.join(d, f)).read()
        names = re.findall(r'\bfn\s+(c\d\d_\w+)\s*\(\s*\)', txt) + re.findall(r'^\w+!\(\s*(c\d\d_\w+)\s*,', txt, re.M)
        for n in names:
            res.append((f[:-3], n))
    return res


def prepare_replay(repo):
    """build the native replay driver against the repository's crates; returns path of the binary"""
    kwork = prepare(repo)
    tag = hashlib.sha1(os.path.abspath(repo).encode()).hexdigest()[:10]
    work = os.path.join(CACHE, 'replay-work-' + tag)
    os.makedirs(os.path.join(work, '.cargo'), exist_ok=True)
    os.makedirs(os.path.join(work, 'src'), exist_ok=True)
    toml = open(os.path.join(VERIF, 'replay', 'Cargo.toml.in')).read().replace('@REPO@', os.path.abspath(repo)).replace('@KANIWORK@', kwork)
    _write_if_changed(os.path.join(work, 'Cargo.toml'), toml)
    tdir = os.path.join(CACHE, 'replay-target-' + tag)
    _write_if_changed(os.path.join(work, '.cargo', 'config.toml'), '[net]\noffline = true\n[build]\ntarget-dir = "%s"\n' % tdir)
    _write_if_changed(os.path.join(work, 'src', 'main.rs'), open(os.path.join(VERIF, 'replay', 'src', 'main.rs')).read())
    reg = 'pub static HARNESSES: &[(&str, fn())] = &[\n' + ''.join(
        '    ("%s", celverif_kani::%s::%s as fn()),\n' % (n, m, n) for m, n in harness_names()) + '];\n'
    _write_if_changed(os.path.join(work, 'src', 'registry.rs'), reg)
    lock = os.path.join(repo, 'Cargo.lock')
    if os.path.exists(lock) and not os.path.exists(os.path.join(work, 'Cargo.lock')):
        shutil.copy(lock, os.path.join(work, 'Cargo.lock'))
    env = dict(os.environ, CARGO_NET_OFFLINE='true')
    p = subprocess.run(['cargo', 'build', '--offline'], cwd=work, env=env, stdout=subprocess.PIPE, stderr=subprocess.STDOUT, text=True)
    binp = os.path.join(tdir, 'debug', 'celverif-replay')
    if p.returncode != 0 or not os.path.exists(binp):
        return None, p.stdout[-3000:]
    return binp, ''


def replay_harness(binp, harness, byte_vectors, timeout=120):
    args = [binp, 'harness', harness.split('::')[-1]] + [bytes(v).hex() for v in byte_vectors]
    try:
        p = subprocess.run(args, stdout=subprocess.PIPE, stderr=subprocess.STDOUT, text=True, timeout=timeout)
    except subprocess.TimeoutExpired:
        return dict(rc=None, out='timeout', cmd=' '.join(args))
    return dict(rc=p.returncode, out=p.stdout[-2000:], cmd=' '.join(args))


def replay_cel(binp, source, variables=(), timeout=60):
    args = [binp, 'cel', source] + list(variables)
    try:
        p = subprocess.run(args, stdout=subprocess.PIPE, stderr=subprocess.STDOUT, text=True, timeout=timeout)
    except subprocess.TimeoutExpired:
        return dict(rc=None, out='timeout', cmd=' '.join(args))
    return dict(rc=p.returncode, out=p.stdout[-2000:], cmd=' '.join(args))


def _write_if_changed(p, s):
    if not os.path.exists(p) or open(p).read() != s:
        open(p, 'w').write(s)


def run(harnesses, repo='/repo', jobs=8, timeout=3600, playback=True):
    """returns dict(status, results={harness: 'SUCCESS'|'FAILURE'|'UNDECIDED'}, playback={harness: [bytes...]}, time_s, cmd, log)"""
    t0 = time.time()
    work = prepare(repo)
    env = dict(os.environ, CARGO_NET_OFFLINE='true')
    cmd = ['cargo', 'kani', '-Z', 'stubbing', '-j', str(jobs), '--output-format', 'terse']
    for h in harnesses:
        cmd += ['--harness', h]
    res = dict(status='ok', results={}, playback={}, cmd=' '.join(cmd), reason=None, checks={})
    # concurrent checks share one Kani build directory: cargo would make them wait for its lock INSIDE the time limit.
    # Take our own lock first, so the limit measures Kani's work on this property only.
    import fcntl
    os.makedirs(CACHE, exist_ok=True)
    lockf = open(os.path.join(CACHE, 'kani-%s.lock' % hashlib.sha1(os.path.abspath(repo).encode()).hexdigest()[:10]), 'w')  # per build directory
    fcntl.flock(lockf, fcntl.LOCK_EX)
    res['waited_for_lock_s'] = round(time.time() - t0, 1)
    try:
        p = subprocess.run(cmd, cwd=work, env=env, stdout=subprocess.PIPE, stderr=subprocess.STDOUT, text=True, timeout=timeout)
    except subprocess.TimeoutExpired as e:
        res.update(status='undecided', reason='kani timeout after %ds' % timeout, log=(e.stdout or '')[-3000:] if isinstance(e.stdout, str) else '')
        res['time_s'] = round(time.time() - t0, 1)
        return res
    out = p.stdout
    res['log'] = out[-6000:]
    res['time_s'] = round(time.time() - t0, 1)
    # (the lock is held until the playback runs below are done: released when lockf goes out of scope)
    failed = set(re.findall(r'Verification failed for - (\S+)', out))
    m = re.search(r'Complete - (\d+) successfully verified harnesses, (\d+) failures, (\d+) total', out)
    if not m:
        res.update(status='undecided', reason='kani did not complete (rc=%s): %s' % (p.returncode, out[-600:]))
        return res
    ok, nfail, total = map(int, m.groups())
    if total != len(set(harnesses)):
        res.update(status='undecided', reason='kani ran %d harnesses, expected %d (harness missing or renamed)' % (total, len(set(harnesses))))
    short = {h.split('::')[-1]: h for h in harnesses}
    for h in harnesses:
        res['results'][h] = 'SUCCESS'
    for f in failed:
        name = f.split('::')[-1]
        if name in short:
            res['results'][short[name]] = 'FAILURE'
    if len(failed) != nfail:
        res.update(status='undecided', reason='kani failure count mismatch')
    # total number of CBMC checks discharged (property-level obligations), when printed
    res['n_success_harnesses'] = ok
    if playback:
        for h, r in list(res['results'].items()):
            if r == 'FAILURE':
                pb = concrete_playback(h, work, env)
                res['playback'][h] = pb
                fc = pb.get('failed_checks') or []
                # a harness whose only failing checks are its own unwinding bound / an unsupported construct decides nothing
                if fc and all(re.search(r'unwinding assertion|not currently supported|unsupported|is not supported', c) for c in fc):
                    res['results'][h] = 'UNDECIDED'
                    res.update(status='undecided', reason='harness %s: %s' % (h, '; '.join(fc[:2])))
    return res


def concrete_playback(harness, work, env, timeout=1200):
    cmd = ['cargo', 'kani', '-Z', 'stubbing', '-Z', 'concrete-playback', '--concrete-playback=print', '--harness', harness]
    try:
        p = subprocess.run(cmd, cwd=work, env=env, stdout=subprocess.PIPE, stderr=subprocess.STDOUT, text=True, timeout=timeout)
    except subprocess.TimeoutExpired:
        return dict(bytes=None, failed_checks=[], note='playback timeout')
    out = p.stdout
    vecs = []
    for m in re.finditer(r'vec!\[([0-9,\s]*)\]', out):
        body = m.group(1).strip()
        vecs.append([int(x) for x in body.split(',') if x.strip()] if body else [])
    failed = re.findall(r'Failed Checks: (.*)', out)
    return dict(bytes=vecs, failed_checks=failed[:10])


def le_int(bs, signed=False):
    v = int.from_bytes(bytes(bs), 'little', signed=signed)
    return v


if __name__ == '__main__':
    r = run(sys.argv[1:], repo=os.environ.get('VERIF_REPO', '/repo'))
    print(r['status'], r['reason'], r['time_s'])
    for h, v in r['results'].items():
        print(' ', h, v, r['playback'].get(h))
    if r['status'] != 'ok':
        print(r.get('log'))
