"""Regenerate contracts/inventory.json: the labelled clauses each property expects to see woven (vacuity guard:
a run in which one of them is missing -- function vanished, contract not woven -- is undecided, never a pass)."""
import json, os, re, sys
sys.path.insert(0, os.path.dirname(os.path.abspath(__file__)))
from weave import Weaver, VERIF
from props import PROPS
groups = sorted(set(g for p in PROPS.values() for g in p.get('verus_groups', [])))
labels = {}
for g in groups:
    w = Weaver('/repo').weave(g)
    for lb in w.labels:
        if lb['label'] and re.match(r'([C0-9+]+)\.', lb['label']):
            # only clauses of units verified (not assumed) somewhere count; keep all, dedupe
            for p in re.match(r'([C0-9+]+)\.', lb['label']).group(1).split('+'):
                labels.setdefault(p, set()).add((g, lb['label']))
        elif lb['label'] and lb['label'].startswith('*.'):
            u = next(x for x in w.units if x['unit'] == lb['unit'])
            for p in u.get('props_internal', []):
                labels.setdefault(p, set()).add((g, lb['label']))
# how many instances of each proof aid (closure contracts keyed by parameter text match every closure with those parameters) are woven on
# the unchanged tree: when a change ADDS a closure with the same parameter text, the extra instance that does not type-check is dropped
# without compromising the unit, as long as this many instances still fit
import collections
aid_counts = {}
for g in groups:
    w = Weaver('/repo').weave(g)
    for u in w.units:
        if u.get('mode') == 'verify' and u.get('aids'):
            c = collections.Counter(re.sub(r'#\d+$', '', a[0]) for a in u['aids'])
            aid_counts[u['unit']] = dict(c)
json.dump(aid_counts, open(os.path.join(VERIF, 'contracts', 'aid_counts.json'), 'w'), indent=1, sort_keys=True)
inv = {}
for p, P in PROPS.items():
    gs = set(P.get('verus_groups', []))
    inv[p] = sorted(set(l for g, l in labels.get(p, set()) if g in gs))
json.dump(inv, open(os.path.join(VERIF, 'contracts', 'inventory.json'), 'w'), indent=1)
print({p: len(v) for p, v in inv.items()})
