"""Regenerate MANIFEST.json from tools/props.py and the per-property texts below."""
import json
import os
import sys
sys.path.insert(0, os.path.dirname(os.path.abspath(__file__)))
from props import PROPS, NOT_APPLICABLE, TEXTS  # noqa

VERIF = os.path.dirname(os.path.dirname(os.path.abspath(__file__)))
checks = []
for pid in sorted(PROPS):
    P = PROPS[pid]
    T = TEXTS[pid]
    checks.append(dict(
        property_id=pid,
        quick_cmd='bin/check %s --tier quick' % pid,
        thorough_cmd='bin/check %s --tier thorough' % pid,
        evidence_file='/verif/evidence/%s.json' % pid,
        replay_cmd_template='bin/check %s --replay {path}' % pid,
        engine='verus+kani' if P.get('kani_quick') or P.get('kani_thorough') else 'verus',
        level_claimed=dict(category=P['level'], text=T['level_text'], design_ref=T.get('design_ref', 'DESIGN.md §5 ' + pid)),
        level_note=T['level_note'],
        technique=T['technique'],
    ))
m = dict(
    version=1,
    setup_cmd='bin/setup',
    hooks=dict(guard='clarkmcc_cel_rust_verif', enable='no hooks are needed: the checks read /repo/**.rs as text (Verus) and build the crates by path dependency (Kani, replay); RUSTFLAGS="--cfg clarkmcc_cel_rust_verif" would enable hooks if any existed',
               baseline_off_cmd='cd /repo && cargo test --workspace --no-fail-fast --offline', source_commits=[], add_only=True),
    engines=[
        dict(name='verus', path='tools/vrun.py', kind_free_text='deductive verifier (Verus 0.2026.09.13 / Z3) on functions extracted verbatim from /repo on every run and woven with contracts/*.vspec',
             serves_properties=sorted(p for p in PROPS if PROPS[p].get('verus_groups'))),
        dict(name='kani', path='tools/krun.py', kind_free_text='Kani 0.68 / CBMC contract harnesses (assume pre; call real fn; assert post) over full-domain scalars, compiled against /repo by path dependency; counterexamples replayed natively',
             serves_properties=sorted(p for p in PROPS if PROPS[p].get('kani_quick') or PROPS[p].get('kani_thorough'))),
    ],
    checks=checks,
    not_applicable=[dict(property_id=k, reason=v) for k, v in sorted(NOT_APPLICABLE.items())],
    notes='Contract-based deductive verification of the real code. exit 0 = all obligations of the property discharged; exit 1 = VIOLATION line; exit 2 = UNDECIDED (lost anchor / unsupported construct / resource limit), never reported as a pass. Genuine defects found so far were repaired by fix: commits in /repo (see known_findings.json).',
)
json.dump(m, open(os.path.join(VERIF, 'MANIFEST.json'), 'w'), indent=1)
print('MANIFEST.json: %d checks, %d not applicable' % (len(checks), len(m['not_applicable'])))
