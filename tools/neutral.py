"""Semantics-preserving edits (neutral/<name>/edit.py: a script that rewrites a scratch worktree; props.txt: the checks to run).
Each must compile and every listed check must exit 0 on it (never a VIOLATION).  usage: neutral.py [names...]  -> neutral/RESULTS.json"""
import json, os, subprocess, sys, tempfile, shutil
VERIF = os.path.dirname(os.path.dirname(os.path.abspath(__file__)))
names = sys.argv[1:] or sorted(d for d in os.listdir(os.path.join(VERIF, 'neutral')) if os.path.isdir(os.path.join(VERIF, 'neutral', d)))
rp = os.path.join(VERIF, 'neutral', 'RESULTS.json')
res = json.load(open(rp)) if (sys.argv[1:] and os.path.exists(rp)) else {}
for n in names:
    d = os.path.join(VERIF, 'neutral', n)
    wt = tempfile.mkdtemp(prefix='cel-neutral-'); os.rmdir(wt)
    bd = tempfile.mkdtemp(prefix='cel-neutral-build-')
    subprocess.check_call(['git', '-C', '/repo', 'worktree', 'add', '-q', '--detach', wt, 'HEAD'])
    try:
        subprocess.check_call([sys.executable, os.path.join(d, 'edit.py'), wt])
        b = subprocess.run(['cargo', 'build', '--offline', '-q'], cwd=wt, env=dict(os.environ, CARGO_TARGET_DIR=os.path.join(bd, 'target'), CARGO_NET_OFFLINE='true'),
                           stdout=subprocess.PIPE, stderr=subprocess.STDOUT, text=True)
        res[n] = dict(compiles=b.returncode == 0, checks={})
        for p in open(os.path.join(d, 'props.txt')).read().split():
            env = dict(os.environ, VERIF_REPO=wt, VERIF_BUILD=bd, VERIF_EVIDENCE=os.path.join(bd, 'evidence'))
            pr = subprocess.run([os.path.join(VERIF, 'bin', 'check'), p, '--tier', 'quick', '--repo', wt, '--no-kani'], env=env, stdout=subprocess.PIPE, stderr=subprocess.STDOUT, text=True)
            res[n]['checks'][p] = dict(rc=pr.returncode, lines=[l[:300] for l in pr.stdout.split('\n') if l.startswith(('VIOLATION', 'UNDECIDED'))][:3])
            print(n, p, 'compiles=%s' % res[n]['compiles'], 'rc=%d' % pr.returncode, flush=True)
    finally:
        subprocess.call(['git', '-C', '/repo', 'worktree', 'remove', '--force', wt])
        shutil.rmtree(bd, ignore_errors=True)
json.dump(res, open(rp, 'w'), indent=1, sort_keys=True)
