#!/bin/sh
# run every Verus group on a repository (default /repo) in parallel; one status line per group
cd "$(dirname "$0")/.."
REPO="${1:-/repo}"
ls groups | sed 's/\.rs$//' | xargs -P "${2:-8}" -I{} sh -c "VERIF_REPO=$REPO python3 tools/vrun.py {} --repo $REPO 2>&1 | sed 's/^/{}: /' | cut -c1-400"
