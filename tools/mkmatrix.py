"""Render seeded/RESULTS.json as the table of DESIGN.md section 9 (between the markers <!-- MATRIX --> ... <!-- /MATRIX -->)."""
import json, os, re
VERIF = os.path.dirname(os.path.dirname(os.path.abspath(__file__)))
res = json.load(open(os.path.join(VERIF, 'seeded', 'RESULTS.json')))
rows = ['| change | what it does (one line) | own-property check | failing obligation(s) |', '|---|---|---|---|']
n = dict(v=0, u=0, p=0, s=0)
for name in sorted(res):
    d = os.path.join(VERIF, 'seeded', name)
    notes = ''
    if os.path.exists(os.path.join(d, 'notes.md')):
        for l in open(os.path.join(d, 'notes.md')):
            l = l.strip().lstrip('#').strip()
            if l:
                notes = l
                break
    elif os.path.exists(os.path.join(d, 'meta.json')):
        notes = (json.load(open(os.path.join(d, 'meta.json'))).get('needs') or '').strip().split('\n')[0].lstrip('#').strip()
    notes = re.sub(r'\|', '/', notes)[:110]
    prop = name.split('-')[0]
    r = res[name]
    if r.get('_stale'):
        rows.append('| %s | %s | stale patch | |' % (name, notes)); n['s'] += 1
        continue
    e = r.get(prop) or {}
    rc = e.get('rc')
    verdict = {1: '**VIOLATION** (exit 1)', 2: 'undecided (exit 2)', 0: 'passes (missed)', None: 'not claimed'}.get(rc, str(rc))
    n['v' if rc == 1 else 'u' if rc == 2 else 'p'] += 1
    det = '; '.join(x.split(' | ')[0] for x in (e.get('detail') or [])[:2]) or (e.get('lines') or [''])[0][:140]
    det = det.replace('|', '/')
    rows.append('| %s | %s | %s | %s |' % (name, notes, verdict, det))
summary = '%d seeded changes: %d reported as VIOLATION by the check of their own property, %d undecided (exit 2, never a pass), %d not reported.' % (
    len(res), n['v'], n['u'], n['p'])
txt = summary + '\n\n' + '\n'.join(rows)
p = os.path.join(VERIF, 'DESIGN.md')
s = open(p).read()
if '<!-- MATRIX -->' in s:
    s = re.sub(r'<!-- MATRIX -->.*<!-- /MATRIX -->', lambda m: '<!-- MATRIX -->\n' + txt + '\n<!-- /MATRIX -->', s, flags=re.S)
else:
    s = s.rstrip('\n') + '\n\n<!-- MATRIX -->\n' + txt + '\n<!-- /MATRIX -->\n'
open(p, 'w').write(s)
print(summary)
