"""Confirm seeded changes independently: in a scratch worktree of /repo (outside /repo and /verif),
(1) unchanged code: demo passes; (2) with patch: existing suite passes, demo fails.  Writes meta.json."""
import json, os, subprocess, sys, shutil, tempfile, re

VERIF = os.path.dirname(os.path.dirname(os.path.abspath(__file__)))

def sh(cmd, cwd, timeout=1800):
    p = subprocess.run(cmd, cwd=cwd, shell=True, stdout=subprocess.PIPE, stderr=subprocess.STDOUT, text=True, timeout=timeout,
                       env=dict(os.environ, CARGO_NET_OFFLINE='true'))
    return p.returncode, p.stdout

def main():
    names = sys.argv[1:] or sorted(os.listdir(os.path.join(VERIF, 'seeded')))
    wt = tempfile.mkdtemp(prefix='cel-confirm-')
    os.rmdir(wt)
    subprocess.check_call(['git', '-C', '/repo', 'worktree', 'add', '-q', '--detach', wt, 'HEAD'])
    try:
        for n in names:
            d = os.path.join(VERIF, 'seeded', n)
            if not os.path.exists(os.path.join(d, 'patch.diff')):
                continue
            demo = open(os.path.join(d, 'demo.rs')).read()
            crate = 'antlr' if re.search(r'place[^\n]*antlr/tests', demo) else 'interpreter'
            tdir = os.path.join(wt, crate, 'tests')
            os.makedirs(tdir, exist_ok=True)
            shutil.copy(os.path.join(d, 'demo.rs'), os.path.join(tdir, 'demo_seed.rs'))
            pkg = 'cel-parser' if crate == 'antlr' else 'cel-interpreter'
            rc0, out0 = sh('cargo test -p %s --offline %s --test demo_seed 2>&1 | tail -15' % (pkg, '--features json' if pkg == 'cel-interpreter' else ''), wt)
            clean_pass = 'test result: ok' in out0
            rc, out = sh('git apply %s' % os.path.join(d, 'patch.diff'), wt)
            applied = rc == 0
            rc1, out1 = sh('cargo test -p %s --offline %s --test demo_seed 2>&1 | tail -15' % (pkg, '--features json' if pkg == 'cel-interpreter' else ''), wt)
            mut_fail = 'test result: FAILED' in out1 or 'panicked' in out1
            os.remove(os.path.join(tdir, 'demo_seed.rs'))
            rc2, out2 = sh('cargo test --workspace --offline 2>&1 | grep "test result" ', wt)
            suite_ok = 'FAILED' not in out2 and out2.count('test result: ok') >= 4
            sh('git checkout -- . && git clean -fdq -e target', wt)
            prop = n.split('-')[0]
            notes = open(os.path.join(d, 'notes.md')).read() if os.path.exists(os.path.join(d, 'notes.md')) else ''
            meta = dict(id=n, property=prop, patch_applies=applied, demo_passes_on_unchanged=clean_pass, demo_fails_with_patch=mut_fail,
                        existing_suite_passes_with_patch=suite_ok, confirmed=bool(applied and clean_pass and mut_fail and suite_ok),
                        needs=notes[:1500], ran=['cargo test -p %s --offline --test demo_seed (unchanged, then patched)' % pkg,
                                                'cargo test --workspace --offline (patched)'],
                        base_commit=subprocess.check_output(['git', '-C', '/repo', 'rev-parse', 'HEAD'], text=True).strip())
            old = {}
            mp = os.path.join(d, 'meta.json')
            if os.path.exists(mp):
                old = json.load(open(mp))
            old.update(meta)
            json.dump(old, open(mp, 'w'), indent=1)
            print(n, 'confirmed' if meta['confirmed'] else 'NOT CONFIRMED', applied, clean_pass, mut_fail, suite_ok, flush=True)
    finally:
        subprocess.call(['git', '-C', '/repo', 'worktree', 'remove', '--force', wt])

main()
