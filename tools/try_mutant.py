"""usage: try_mutant.py <seeded name> <group> [group...]  -- run Verus groups on a scratch worktree with the patch applied"""
import os, subprocess, sys, tempfile, shutil
sys.path.insert(0, os.path.dirname(os.path.abspath(__file__)))
import vrun
name, groups = sys.argv[1], sys.argv[2:]
wt = tempfile.mkdtemp(prefix='cel-try-'); os.rmdir(wt)
subprocess.check_call(['git', '-C', '/repo', 'worktree', 'add', '-q', '--detach', wt, 'HEAD'])
bd = tempfile.mkdtemp(prefix='cel-try-build-')
try:
    subprocess.check_call(['git', '-C', wt, 'apply', os.path.join(vrun.VERIF, 'seeded', name, 'patch.diff')])
    for g in groups:
        r = vrun.run_group(g, repo=wt, outdir=bd, log_air=False)
        print(g, 'status=%s reason=%s verified=%s errors=%s time=%ss helpers=%s' % (r['status'], (r['reason'] or '')[:300], r.get('verified'), r.get('errors'), r['time_s'], r.get('auto_extracted_helpers')))
        for c in r['diags']:
            print('  FAIL %-11s %-45s unit=%-26s props=%s region=%s %s | %s' % (c['kind'], c['label'] or '-', c['unit'], ','.join(c['props']), c.get('region'), c['src'], (c['src_text'] or '')[:100]))
        for u in r['undecided'][:4]:
            print('  UNDECIDED %s [%s] %s' % (u['message'][:250], u.get('unit'), u.get('src')))
finally:
    subprocess.call(['git', '-C', '/repo', 'worktree', 'remove', '--force', wt])
    shutil.rmtree(bd, ignore_errors=True)
