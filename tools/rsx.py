"""Token-aware slicer for Rust source text.

Used to cut real items (fn / impl / struct / enum / const / mod / trait / type) out of /repo by
*item path* (never by line number), verbatim, with provenance (byte range, line, sha256).

Only lexical structure is understood: line comments, nested block comments, string / raw string /
byte string literals, char literals vs lifetimes, and bracket matching.  That is all that is needed
to find where an item starts and where its body ends.
"""
import hashlib
import re


class SliceError(Exception):
    """An anchor (item path / loop ordinal / text anchor) could not be resolved uniquely."""


def mask(src):
    """Return a same-length string where comment and literal *contents* are replaced by spaces
    (newlines kept), so brace matching and keyword search can be done with plain scans."""
    out = list(src)
    i, n = 0, len(src)

    def blank(a, b):
        for k in range(a, b):
            if out[k] != '\n':
                out[k] = ' '

    while i < n:
        c = src[i]
        if c == '/' and i + 1 < n and src[i + 1] == '/':
            j = src.find('\n', i)
            j = n if j < 0 else j
            blank(i, j)
            i = j
        elif c == '/' and i + 1 < n and src[i + 1] == '*':
            depth, j = 1, i + 2
            while j < n and depth:
                if src.startswith('/*', j):
                    depth += 1
                    j += 2
                elif src.startswith('*/', j):
                    depth -= 1
                    j += 2
                else:
                    j += 1
            blank(i, j)
            i = j
        elif c == '"' or (c in 'b' and src.startswith('b"', i)):
            s = i + (1 if c == '"' else 2)
            j = s
            while j < n and src[j] != '"':
                j += 2 if src[j] == '\\' else 1
            blank(s, min(j, n))
            i = j + 1
        elif (c == 'r' or src.startswith('br', i)) and re.match(r'b?r#*"', src[i:i + 12]) and \
                (i == 0 or not (src[i - 1].isalnum() or src[i - 1] == '_')):
            m = re.match(r'b?r(#*)"', src[i:])
            hashes = m.group(1)
            s = i + m.end()
            j = src.find('"' + hashes, s)
            j = n if j < 0 else j
            blank(s, j)
            i = j + 1 + len(hashes)
        elif c == "'":
            # char literal or lifetime
            m = re.match(r"'(\\.[^']*|[^'\\])'", src[i:i + 14])
            if m:
                blank(i + 1, i + m.end() - 1)
                i += m.end()
            else:
                i += 1
        else:
            i += 1
    return ''.join(out)


OPEN = {'(': ')', '[': ']', '{': '}'}
CLOSE = {v: k for k, v in OPEN.items()}


def match_close(msk, i):
    """msk[i] is an opening bracket; return index of the matching closing bracket."""
    stack = []
    n = len(msk)
    j = i
    while j < n:
        ch = msk[j]
        if ch in OPEN:
            stack.append(ch)
        elif ch in CLOSE:
            if not stack or stack[-1] != CLOSE[ch]:
                raise SliceError('unbalanced bracket at offset %d' % j)
            stack.pop()
            if not stack:
                return j
        j += 1
    raise SliceError('unterminated bracket at offset %d' % i)


def norm(s):
    return re.sub(r'\s+', ' ', s).strip()


class Source:
    def __init__(self, path, text):
        self.path = path
        self.text = text
        self.msk = mask(text)

    line_base = 0

    def line_of(self, off):
        return self.text.count('\n', 0, off) + 1 + self.line_base

    # ---- item search -------------------------------------------------------------------------
    def _items(self, lo, hi):
        """Yield (kind, header_norm, name, start, body_open, end) for items directly inside the
        region [lo, hi) at bracket depth 0.  `start` is the offset of the first token of the item
        proper (after attributes / doc comments), `end` is one past the closing brace or `;`."""
        msk = self.msk
        i = lo
        kw = re.compile(r'\b(fn|impl|struct|enum|const|static|mod|trait|type|macro_rules!|use)\b')
        while i < hi:
            ch = msk[i]
            if ch in OPEN:
                i = match_close(msk, i) + 1
                continue
            m = kw.match(msk, i)
            if not m or (i > 0 and (msk[i - 1].isalnum() or msk[i - 1] == '_')):
                i += 1
                continue
            kind = m.group(1)
            # `const fn`, `unsafe fn`, `pub(crate) fn` handled by scanning back for qualifiers
            start = i
            back = re.search(r'((?:pub(?:\s*\([^)]*\))?\s+|const\s+|unsafe\s+|async\s+|default\s+|extern\s+"[^"]*"\s+)*)$',
                             msk[max(lo, i - 80):i])
            if back:
                start = i - len(back.group(1))
            if kind == 'const' and re.match(r'const\s+(fn|unsafe)\b', msk[i:i + 20]):
                i += 5
                continue
            # find end: first `{` or `;` at depth 0 (skipping (), [], <> are not brackets here)
            j = m.end()
            while j < hi:
                c2 = msk[j]
                if c2 == '{':
                    break
                if c2 == ';':
                    break
                if c2 in '([':
                    j = match_close(msk, j) + 1
                    continue
                j += 1
            if j >= hi:
                return
            if msk[j] == '{':
                body_open = j
                end = match_close(msk, j) + 1
            else:
                body_open = None
                end = j + 1
            header = norm(self.text[i:j])
            nm = re.match(r'(?:fn|struct|enum|const|static|mod|trait|type)\s+([A-Za-z_][A-Za-z0-9_]*)', header)
            name = nm.group(1) if nm else None
            yield (kind, header, name, start, body_open, end)
            i = end

    def find(self, path):
        """path: list of segments like ['impl ops::Add<Value> for Value', 'fn add'].
        Returns dict(start, body_open, end, header, kind, name).  When an intermediate segment
        (e.g. `impl Value`) matches several items, the one that contains the rest of the path is taken;
        the full path must still resolve uniquely."""
        def rec(lo, hi, segs):
            segn = norm(segs[0])
            cands = []
            for it in self._items(lo, hi):
                kind, header, name, start, body_open, end = it
                if segn.startswith('impl'):
                    h = re.sub(r'\s+where\b.*$', '', header)
                    if kind == 'impl' and norm(h) == segn:
                        cands.append(it)
                else:
                    k, _, nm = segn.partition(' ')
                    if kind == k and name == nm:
                        cands.append(it)
            if len(segs) == 1:
                return cands
            out = []
            for it in cands:
                if it[4] is not None:
                    out += rec(it[4] + 1, it[5] - 1, segs[1:])
            return out
        res = rec(0, len(self.text), list(path))
        if len(res) != 1:
            raise SliceError('%s: item path %r matches %d items' % (self.path, ' :: '.join(path), len(res)))
        kind, header, name, start, body_open, end = res[0]
        return dict(kind=kind, header=header, name=name, start=start, body_open=body_open, end=end)

    def find_enclosing(self, path):
        """the item named by path[:-1] that contains the unique match of `path`"""
        target = self.find(path)
        best = None
        def rec(lo, hi, segs):
            nonlocal best
            segn = norm(segs[0])
            for it in self._items(lo, hi):
                kind, header, name, start, body_open, end = it
                ok = False
                if segn.startswith('impl'):
                    h = re.sub(r'\s+where\b.*$', '', header)
                    ok = kind == 'impl' and norm(h) == segn
                else:
                    k, _, nm = segn.partition(' ')
                    ok = kind == k and name == nm
                if ok and start <= target['start'] and target['end'] <= end:
                    if len(segs) == 1:
                        best = dict(kind=kind, header=header, name=name, start=start, body_open=body_open, end=end)
                    elif body_open is not None:
                        rec(body_open + 1, end - 1, segs[1:])
        rec(0, len(self.text), list(path[:-1]))
        if best is None:
            raise SliceError('%s: enclosing item of %r not found' % (self.path, ' :: '.join(path)))
        return best

    def slice(self, a, b):
        return self.text[a:b]

    def sha(self, a, b):
        return hashlib.sha256(self.text[a:b].encode()).hexdigest()


def find_loops(msk, lo, hi):
    """Offsets of `for`/`while`/`loop` keywords (in source order) within msk[lo:hi], with the
    offset of the `{` that opens each loop body."""
    res = []
    for m in re.finditer(r'\b(for|while|loop)\b', msk[lo:hi]):
        i = lo + m.start()
        if m.group(1) == 'for':
            # skip `for<'a>` HRTB and `impl X for Y`
            rest = msk[i + 3:i + 8]
            if rest.lstrip().startswith('<'):
                continue
        # find body `{` at depth 0 after the header; a struct-literal brace cannot appear in a
        # loop header without parentheses, so the first depth-0 `{` is the body.
        j = lo + m.end()
        while j < hi:
            c = msk[j]
            if c == '{':
                break
            if c in '([':
                j = match_close(msk, j) + 1
                continue
            j += 1
        if j < hi:
            res.append((i, j, m.group(1)))
    return res


def find_closures(msk, lo, hi):
    """Offsets (start of `|`, end of parameter list = offset after closing `|`) of closures in
    source order.  A closure starts with `|` preceded by `(`, `,`, `=`, `move`, or `return`."""
    res = []
    i = lo
    while i < hi:
        if msk[i] == '|':
            if msk[i + 1] == '|' and re.search(r'(\(|,|=|\bmove|\breturn|\{|;)\s*$', msk[max(lo, i - 30):i]):
                res.append((i, i + 2))
                i += 2
                continue
            if re.search(r'(\(|,|=|\bmove|\breturn|\{|;)\s*$', msk[max(lo, i - 30):i]):
                j = msk.find('|', i + 1)
                if j > 0 and j < hi:
                    res.append((i, j + 1))
                    i = j + 1
                    continue
        i += 1
    return res


def closure_extents(text):
    """(start, end) offsets of every closure (header through end of body) in `text`"""
    msk = mask(text)
    out = []
    for a, b in find_closures(msk, 0, len(msk)):
        j = b
        # optional return type / woven contract up to the body
        rest = msk[b:]
        k = b + (len(rest) - len(rest.lstrip()))
        if msk[k:k + 2] == '->' or msk[k:k + 1] == '{' or re.match(r'(requires|ensures)\b', msk[k:]):
            k2 = msk.find('{', k)
            if k2 >= 0:
                try:
                    out.append((a, match_close(msk, k2)))
                    continue
                except Exception:
                    pass
        depth, j = 0, k
        while j < len(msk):
            c = msk[j]
            if c in '([{':
                try:
                    j = match_close(msk, j) + 1
                except Exception:
                    break
                continue
            if c in ')]};' or c == ',':
                break
            j += 1
        out.append((a, j))
    return out
