"""Self-test: run the checks against every seeded change (seeded/<id>/patch.diff) on a scratch worktree
of /repo (outside /repo and /verif, removed afterwards).  usage: mutants.py [--all-props] [names...]
Writes seeded/RESULTS.json: per mutant, per property checked: exit code and the VIOLATION/UNDECIDED lines."""
import json, os, subprocess, sys, tempfile, shutil, time

VERIF = os.path.dirname(os.path.dirname(os.path.abspath(__file__)))
sys.path.insert(0, os.path.join(VERIF, 'tools'))
from props import PROPS

def main():
    args = sys.argv[1:]
    allp = '--all-props' in args
    nokani = '--no-kani' in args
    outp = None
    if '--out' in args:
        i = args.index('--out'); outp = args[i + 1]; del args[i:i + 2]
    names = [a for a in args if not a.startswith('--')] or sorted(d for d in os.listdir(os.path.join(VERIF, 'seeded')) if os.path.isdir(os.path.join(VERIF, 'seeded', d)))
    wt = tempfile.mkdtemp(prefix='cel-mut-')
    os.rmdir(wt)
    subprocess.check_call(['git', '-C', '/repo', 'worktree', 'add', '-q', '--detach', wt, 'HEAD'])
    bd = tempfile.mkdtemp(prefix='cel-mut-build-')
    resp = outp or os.path.join(VERIF, 'seeded', 'RESULTS.json')
    results = json.load(open(resp)) if os.path.exists(resp) else {}
    try:
        for n in names:
            d = os.path.join(VERIF, 'seeded', n)
            subprocess.check_call(['git', '-C', wt, 'checkout', '-q', '--', '.'])
            if subprocess.call(['git', '-C', wt, 'apply', os.path.join(d, 'patch.diff')]) != 0:
                subprocess.check_call(['git', '-C', wt, 'checkout', '-q', '--', '.'])
                if subprocess.call(['git', '-C', wt, 'apply', '--3way', os.path.join(d, 'patch.diff')]) != 0:
                    subprocess.call(['git', '-C', wt, 'reset', '-q', '--hard', 'HEAD'])
                    results.setdefault(n, {})['_stale'] = 'patch no longer applies to /repo HEAD'
                    print(n, 'STALE: patch does not apply', flush=True)
                    continue
                subprocess.call(['git', '-C', wt, 'reset', '-q'])
            prop = n.split('-')[0]
            plist = sorted(PROPS) if allp else [prop]
            results.setdefault(n, {})
            for p in plist:
                if p not in PROPS:
                    results[n][p] = dict(rc=None, note='property not claimed yet')
                    continue
                t0 = time.time()
                env = dict(os.environ, VERIF_REPO=wt, VERIF_BUILD=bd, VERIF_EVIDENCE=os.path.join(bd, 'evidence'))
                cmd = [os.path.join(VERIF, 'bin', 'check'), p, '--tier', 'quick', '--repo', wt] + (['--no-kani'] if nokani else [])
                pr = subprocess.run(cmd, env=env, stdout=subprocess.PIPE, stderr=subprocess.STDOUT, text=True)
                lines = [l for l in pr.stdout.split('\n') if l.startswith(('VIOLATION', 'UNDECIDED', 'KNOWN'))]
                detail = []
                for l in lines:
                    if l.startswith('VIOLATION'):
                        rp = l.split('replay=')[1].split()[0]
                        try:
                            r = json.load(open(rp))
                            detail.append('%s %s @ %s | %s' % (r.get('engine'), r.get('obligation'), r.get('site') or r.get('harness'), (r.get('site_text') or '')[:90]))
                        except Exception:
                            pass
                results[n][p] = dict(rc=pr.returncode, lines=lines[:6], detail=detail[:6], wall_s=round(time.time() - t0, 1))
                print(n, p, 'rc=%s' % pr.returncode, '; '.join(detail[:3]) or '; '.join(lines[:2])[:300], flush=True)
            json.dump(results, open(resp, 'w'), indent=1)
    finally:
        subprocess.call(['git', '-C', '/repo', 'worktree', 'remove', '--force', wt])
        shutil.rmtree(bd, ignore_errors=True)
        import hashlib
        tag = hashlib.sha1(os.path.abspath(wt).encode()).hexdigest()[:10]
        for x in (os.listdir(os.path.join(VERIF, '.cache')) if os.path.isdir(os.path.join(VERIF, '.cache')) else []):
            if x.endswith(tag):
                shutil.rmtree(os.path.join(VERIF, '.cache', x), ignore_errors=True)

main()
