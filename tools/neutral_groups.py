"""Fast false-alarm test: apply a behaviour-preserving change (neutral/<name>/edit.py or patch.diff) to a scratch worktree and run EVERY
Verus group once on it (no Kani).  A diagnostic that check.py would turn into a VIOLATION of some property is a false alarm.
usage: neutral_groups.py [names...]   -> neutral/GROUPS.json  (per edit: compiles, per group: status, diags (unit, label, props), undecided reason)"""
import json, os, subprocess, sys, tempfile, shutil
from concurrent.futures import ThreadPoolExecutor
VERIF = os.path.dirname(os.path.dirname(os.path.abspath(__file__)))
sys.path.insert(0, os.path.join(VERIF, 'tools'))
import vrun

GROUPS = sorted(f[:-3] for f in os.listdir(os.path.join(VERIF, 'groups')) if f.endswith('.rs') and not f.endswith('_open.rs'))


def run_one(args):
    g, wt, bd = args
    try:
        r = vrun.run_group(g, repo=wt, outdir=os.path.join(bd, g), log_air=False)
    except Exception as e:  # tool failure is not an alarm
        return g, dict(status='error', reason=str(e)[:200], diags=[])
    return g, dict(status=r['status'], reason=(r.get('reason') or '')[:300],
                   diags=[dict(unit=c['unit'], label=c['label'], kind=c['kind'], props=c['props'], src=c['src'], text=(c['src_text'] or '')[:120]) for c in r.get('diags', [])])


def main():
    names = sys.argv[1:] or sorted(d for d in os.listdir(os.path.join(VERIF, 'neutral')) if os.path.isdir(os.path.join(VERIF, 'neutral', d)))
    rp = os.path.join(VERIF, 'neutral', 'GROUPS.json')
    res = json.load(open(rp)) if os.path.exists(rp) else {}
    for n in names:
        d = os.path.join(VERIF, 'neutral', n)
        wt = tempfile.mkdtemp(prefix='cel-neutral-'); os.rmdir(wt)
        bd = tempfile.mkdtemp(prefix='cel-neutral-build-')
        subprocess.check_call(['git', '-C', '/repo', 'worktree', 'add', '-q', '--detach', wt, 'HEAD'])
        try:
            if os.path.exists(os.path.join(d, 'patch.diff')):
                if subprocess.call(['git', '-C', wt, 'apply', os.path.join(d, 'patch.diff')]) != 0:
                    res[n] = dict(stale=True)
                    print(n, 'STALE patch', flush=True)
                    continue
            else:
                subprocess.check_call([sys.executable, os.path.join(d, 'edit.py'), wt])
            b = subprocess.run(['cargo', 'build', '--offline', '-q', '--features', 'json', '-p', 'cel-interpreter'], cwd=wt,
                               env=dict(os.environ, CARGO_TARGET_DIR=os.path.join(bd, 'target'), CARGO_NET_OFFLINE='true'),
                               stdout=subprocess.PIPE, stderr=subprocess.STDOUT, text=True)
            with ThreadPoolExecutor(max_workers=6) as ex:
                out = dict(ex.map(run_one, [(g, wt, bd) for g in GROUPS]))
            alarms = [(g, x) for g, v in out.items() for x in v['diags']]
            undec = [g for g, v in out.items() if v['status'] != 'ok']
            res[n] = dict(compiles=b.returncode == 0, alarms=[dict(group=g, **x) for g, x in alarms], undecided_groups={g: out[g]['reason'] for g in undec})
            print(n, 'compiles=%s' % (b.returncode == 0), 'ALARMS=%d' % len(alarms), 'undecided=%s' % undec, flush=True)
            for g, x in alarms[:6]:
                print('   ALARM', g, x['unit'], x['label'] or x['kind'], x['props'], x['text'], flush=True)
        finally:
            subprocess.call(['git', '-C', '/repo', 'worktree', 'remove', '--force', wt])
            shutil.rmtree(bd, ignore_errors=True)
        json.dump(res, open(rp, 'w'), indent=1, sort_keys=True)


main()
