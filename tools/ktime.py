"""Time Kani harnesses individually, N at a time (timeout per harness); merges into kani/timings.json.
usage: ktime.py [-jN] [prefix...]"""
import json, os, subprocess, sys, time
from concurrent.futures import ThreadPoolExecutor
sys.path.insert(0, os.path.dirname(os.path.abspath(__file__)))
import krun
args = sys.argv[1:]
jobs = 1
for a in list(args):
    if a.startswith('-j'):
        jobs = int(a[2:]); args.remove(a)
hs = [n for m, n in krun.harness_names() if not args or any(n.startswith(p) for p in args)]
work = krun.prepare('/repo')
env = dict(os.environ, CARGO_NET_OFFLINE='true')
out = os.path.join(krun.VERIF, 'kani', 'timings.json')
res = json.load(open(out)) if os.path.exists(out) else {}
TO = int(os.environ.get('KTIME_TIMEOUT', '900'))
# one build first (the others reuse it)
subprocess.run(['cargo', 'kani', '-Z', 'stubbing', '--only-codegen'], cwd=work, env=env, stdout=subprocess.DEVNULL, stderr=subprocess.DEVNULL)

def one(h):
    t0 = time.time()
    p = subprocess.Popen(['cargo', 'kani', '-Z', 'stubbing', '--output-format', 'terse', '--harness', h], cwd=work, env=env,
                         stdout=subprocess.PIPE, stderr=subprocess.STDOUT, text=True, start_new_session=True)
    try:
        o, _ = p.communicate(timeout=TO)
        st = 'SUCCESS' if 'VERIFICATION:- SUCCESSFUL' in o else ('FAILURE' if 'VERIFICATION:- FAILED' in o else 'ERROR')
    except subprocess.TimeoutExpired:
        st = 'TIMEOUT'
        import signal
        try:
            os.killpg(p.pid, signal.SIGKILL)
        except Exception:
            pass
        p.wait()
    return h, dict(status=st, seconds=round(time.time() - t0, 1), parallel=jobs)

with ThreadPoolExecutor(jobs) as ex:
    for h, r in ex.map(one, hs):
        res[h] = r
        print(h, r, flush=True)
        json.dump(res, open(out, 'w'), indent=1)
