"""Time every Kani harness individually (timeout per harness); writes kani/timings.json.  usage: ktime.py [prefix...]"""
import json, os, subprocess, sys, time
sys.path.insert(0, os.path.dirname(os.path.abspath(__file__)))
import krun
pref = sys.argv[1:]
hs = [n for m, n in krun.harness_names() if not pref or any(n.startswith(p) for p in pref)]
work = krun.prepare('/repo')
env = dict(os.environ, CARGO_NET_OFFLINE='true')
out = os.path.join(krun.VERIF, 'kani', 'timings.json')
res = json.load(open(out)) if os.path.exists(out) else {}
for h in hs:
    t0 = time.time()
    try:
        p = subprocess.run(['cargo', 'kani', '-Z', 'stubbing', '--output-format', 'terse', '--harness', h], cwd=work, env=env,
                           stdout=subprocess.PIPE, stderr=subprocess.STDOUT, text=True, timeout=int(os.environ.get('KTIME_TIMEOUT', '900')))
        ok = 'VERIFICATION:- SUCCESSFUL' in p.stdout
        st = 'SUCCESS' if ok else ('FAILURE' if 'VERIFICATION:- FAILED' in p.stdout else 'ERROR')
    except subprocess.TimeoutExpired:
        st = 'TIMEOUT'
        subprocess.run(['pkill', 'cbmc'])
    res[h] = dict(status=st, seconds=round(time.time() - t0, 1))
    print(h, res[h], flush=True)
    json.dump(res, open(out, 'w'), indent=1)
