"""Run Verus on one woven group and map every diagnostic back to
   (unit, obligation label | kind, source site in /repo, owning properties)."""
import json
import os
import re
import subprocess
import sys
import time

sys.path.insert(0, os.path.dirname(os.path.abspath(__file__)))
from weave import Weaver, VERIF  # noqa: E402
from rsx import SliceError  # noqa: E402

GROUP_CFG = {
    # group: dict(rlimit=.., multiple_errors=..)
    'interp': dict(rlimit=200, multiple_errors=3),
    'duration': dict(rlimit=400, multiple_errors=5),
    # parse_quoted_string uses about half of the default budget on the unchanged tree: a renamed local tipped it over (neutral edit
    # rename-locals-unicode-escapes); a generous limit keeps harmless edits decided (the unit takes 5 s)
    'literals': dict(rlimit=150),
    'literals_open': dict(rlimit=150),
}

KINDS = [
    (re.compile(r'postcondition not satisfied'), 'post'),
    (re.compile(r'unable to prove post-condition of closure'), 'closure'),
    (re.compile(r'precondition not satisfied'), 'pre'),
    (re.compile(r'possible arithmetic underflow/overflow'), 'overflow'),
    (re.compile(r'possible division by zero'), 'divzero'),
    (re.compile(r'invariant not satisfied'), 'invariant'),
    (re.compile(r'loop must have a decreases|decreases not satisfied|could not prove termination|decreases clause'), 'termination'),
    (re.compile(r'assertion failed|assert_by|assert_nonlinear|assert_bitvector'), 'assert'),
    (re.compile(r'recommendation not met|recommends'), 'recommends'),
]
SAFETY_KINDS = {'pre', 'overflow', 'divzero', 'panic', 'cast'}
UNDECIDED_PAT = re.compile(r'loop must have a decreases clause|[Rr]esource limit|rlimit|timed? ?out|not supported|unsupported|The verifier does not yet support|internal error|panicked')


def _span_in_file(sp, fname):
    """follow macro expansion chain until a span inside `fname` is found"""
    seen = 0
    while sp is not None and seen < 12:
        if os.path.basename(sp.get('file_name', '')) == fname:
            return sp
        exp = sp.get('expansion')
        sp = exp.get('span') if exp else None
        seen += 1
    return None


def weave_group(group, repo, outdir, extras=(), bare=(), drop_aids=None, nodecr=()):
    w = Weaver(repo).weave(group, extras=extras, bare=bare, drop_aids=drop_aids, nodecr=nodecr)
    os.makedirs(outdir, exist_ok=True)
    out = os.path.join(outdir, group + '.rs')
    open(out, 'w').write('\n'.join(w.lines) + '\n')
    m = dict(group=w.group, srcmap={str(k): v for k, v in w.srcmap.items()}, labels=w.labels, units=w.units, items=w.items, uncontracted=w.uncontracted)
    json.dump(m, open(out[:-3] + '.map.json', 'w'), indent=1)
    return out, m, w.lines


def scan_assumptions(lines, mp):
    """mechanical scan of the woven file for everything that is assumed rather than proved"""
    txt = '\n'.join(lines)
    res = []
    unit_of = {}
    for u in mp['units']:
        for ln in range(u['line_start'], u['line_end'] + 1):
            unit_of[ln] = u
    in_verified_unit_cheat = []
    for i, l in enumerate(lines, 1):
        s = l.strip()
        if s.startswith('//'):
            continue
        u = unit_of.get(i)
        if re.search(r'\bassume\s*\(|\badmit\s*\(', s) and 'assume_specification' not in s:
            if u and u['mode'] == 'verify':
                in_verified_unit_cheat.append((i, s))
            res.append('assume/admit at woven line %d: %s' % (i, s[:100]))
    n_ext = len(re.findall(r'#\[verifier::external_body\]', txt))
    n_as = len(re.findall(r'\bassume_specification\b', txt))
    n_un = len(re.findall(r'\buninterp\s+spec\s+fn\b', txt))
    names_ext = []
    for m in re.finditer(r'#\[verifier::external_body\]\s*(?:#\[[^\]]*\]\s*)*(?:pub\s+)?(?:broadcast\s+)?(?:proof\s+)?(fn|struct)\s+(\w+)', txt):
        names_ext.append(m.group(2))
    names_as = re.findall(r'assume_specification\s*(?:<[^\[]*>)?\s*\[\s*([^\]]+?)\s*\]', txt)
    names_un = re.findall(r'uninterp\s+spec\s+fn\s+(\w+)', txt)
    res.append('%d external_body items (contract assumed, body not verified): %s' % (n_ext, ', '.join(sorted(set(names_ext)))))
    if n_as:
        res.append('%d assume_specification on std functions: %s' % (n_as, ', '.join(sorted(set(names_as)))))
    if n_un:
        res.append('%d uninterpreted spec functions (doubles, host functions, dependency internals): %s' % (n_un, ', '.join(sorted(set(names_un)))))
    for u in mp['units']:
        if u['mode'] == 'assume':
            res.append('unit %s used under its contract only in this group (proved in its own group)' % u['unit'])
    return res, in_verified_unit_cheat


def count_obligations(air_path, mp, woven_name):
    """count `(location` obligations per Function-Def block of the final AIR, keyed by unit"""
    per_unit = {}
    per_other = 0
    if not os.path.exists(air_path):
        return per_unit, 0
    units = mp['units']
    cur = None
    hdr = re.compile(r'^;; Function-Def (.*)$')
    sp = re.compile(r'^;; (?:\S*/)?' + re.escape(woven_name) + r':(\d+):')
    lines = open(air_path, errors='replace').read().split('\n')
    i = 0
    while i < len(lines):
        m = hdr.match(lines[i])
        if m:
            cur = ('?', m.group(1))
            if i + 1 < len(lines):
                m2 = sp.match(lines[i + 1])
                if m2:
                    ln = int(m2.group(1))
                    for u in units:
                        if u['mode'] == 'verify' and u['line_start'] <= ln <= u['line_end']:
                            cur = (u['unit'], m.group(1))
                            break
        elif lines[i].startswith(';; Function-') and not lines[i].startswith(';; Function-Def'):
            cur = None
        elif cur and '(location' in lines[i]:
            if cur[0] == '?':
                per_other += 1
            else:
                per_unit[cur[0]] = per_unit.get(cur[0], 0) + 1
        i += 1
    return per_unit, per_other


def classify(d, mp, woven_name, lines):
    msg = d.get('message', '')
    kind = 'other'
    for rx, k in KINDS:
        if rx.search(msg):
            kind = k
            break
    spans = []
    for sp in d.get('spans', []):
        s2 = _span_in_file(sp, woven_name)
        if s2 is not None:
            spans.append(dict(line_start=s2['line_start'], line_end=s2['line_end'], primary=sp.get('is_primary', False),
                              label=sp.get('label'), expanded=(s2 is not sp)))
        elif sp.get('is_primary') and kind == 'pre':
            pass
    # which labelled clause (if any) is involved
    label = None
    label_unit = None
    for s in spans:
        for lb in mp['labels']:
            if lb['label'] and not (s['line_end'] < lb['line_start'] or s['line_start'] > lb['line_end']):
                label, label_unit = lb['label'], lb['unit']
                label_kind = lb['kind']
                break
        if label:
            break
    # site: the span that is not a contract clause (exit point / call site / failing expression)
    site = None
    clause_lines = set()
    for lb in mp['labels']:
        clause_lines.update(range(lb['line_start'], lb['line_end'] + 1))
    cand = [s for s in spans if s['line_start'] not in clause_lines]

    def in_unit(s_):
        return any(u_['line_start'] <= s_['line_start'] <= u_['line_end'] for u_ in mp['units'])
    # prefer spans inside a unit (the code), then a small span (an exit/call) over the whole-body span
    cand.sort(key=lambda s: (not in_unit(s), s['line_end'] - s['line_start'], not s['primary']))
    if cand:
        site = cand[0]
    unit = None
    if site:
        for u in mp['units']:
            if u['line_start'] <= site['line_start'] <= u['line_end']:
                unit = u
                break
    if unit is None and label_unit:
        for u in mp['units']:
            if u['unit'] == label_unit:
                unit = u
    # panic-family: precondition failure whose primary span is a macro expansion
    if kind == 'pre' and any(s['expanded'] for s in spans):
        txt = lines[site['line_start'] - 1] if site else ''
        if re.search(r'\b(panic|todo|unreachable|unimplemented|assert|assert_eq|assert_ne)!', txt):
            kind = 'panic'
    src = None
    src_text = None
    if site:
        sm = mp['srcmap'].get(str(site['line_start']))
        if sm:
            src = '%s:%d' % (sm[0], sm[1])
        src_text = re.sub(r'\s+', ' ', lines[site['line_start'] - 1]).strip() if site['line_start'] - 1 < len(lines) else None
        if site['line_end'] - site['line_start'] > 3:
            src_text = '(end of function body)'
    woven_site = site is not None and src is None    # failing obligation sits on woven (ghost) text
    props = []
    region = None
    region_props = None
    if unit is not None and site and unit.get('regions') and site['line_end'] - site['line_start'] <= 60:
        best = None
        for rg_ in unit['regions']:
            ln, pr, rx = rg_[0], rg_[1], rg_[2]
            ln_end = rg_[3] if len(rg_) > 3 else 1 << 30
            # innermost region (latest start) whose extent contains the failing site
            if ln <= site['line_start'] <= ln_end and (best is None or ln >= best[0]):
                best = (ln, pr, rx)
        if best:
            region_props = list(best[1])
            region = best[2]
    props = []
    if label and re.match(r'([C0-9+]+)\.', label):
        props = re.match(r'([C0-9+]+)\.', label).group(1).split('+')
    elif label and label.startswith('*.') and unit is not None:
        # a clause shared by every arm of a large function: the arm of the failing exit decides the owner
        props = region_props if region_props is not None else list(unit['props_internal'])
    elif unit is not None and unit['mode'] == 'verify':
        internal = region_props if region_props is not None else (list(unit['props_internal']) or list(unit['props_safety']))
        if kind in SAFETY_KINDS and not woven_site:
            props = list(unit['props_safety'])
        elif kind == 'termination':
            props = sorted(set(unit['props_safety']) | set(internal))
        else:
            props = internal
    tool_limit = None
    if kind == 'termination' and unit is not None and site:
        # a recursive call wrapped in a closure: Verus cannot carry `decreases` through closures (tool limit, not a verdict)
        from rsx import closure_extents
        utext = '\n'.join(lines[unit['line_start'] - 1:unit['line_end']])
        off = sum(len(l_) + 1 for l_ in lines[unit['line_start'] - 1:site['line_start'] - 1])
        off_end = off + len(lines[site['line_start'] - 1])
        try:
            if any(a_ < off_end and b_ >= off for a_, b_ in closure_extents(utext)):
                tool_limit = 'recursive call inside a closure: Verus cannot check decreases through closures'
        except Exception:
            pass
    return dict(tool_limit=tool_limit, region=region, kind=kind, message=msg, label=label, unit=unit['unit'] if unit else None, props=props, src=src,
                src_text=src_text, woven_line=site['line_start'] if site else None,
                rendered=d.get('rendered', '')[:3000])


def run_group(group, repo='/repo', outdir=None, seed=0, rlimit=None, extra_args=(), log_air=True, timeout=3600):
    """run a group; when the code under contract calls a helper that is not under contract (a refactoring moved logic into a
    new function), extract that helper from the same source file and verify again (at most 3 rounds)"""
    extras = []
    bare = []
    drop = {}
    helper_callers = {}
    res = None
    nodecr = []
    for _round in range(10):
        res = _run_group(group, repo, outdir, seed, rlimit, extra_args, log_air, timeout, extras, bare, drop, nodecr)
        if res['status'] != 'undecided' or not res.get('undecided'):
            break
        # a loop without decreases clause aborts Verus for the whole file: waive termination for that unit only (it becomes undecided)
        nd = sorted(set(u['unit'] for u in res['undecided'] if u.get('unit') and 'loop must have a decreases clause' in u.get('message', '') and u['unit'] not in nodecr))
        if nd:
            nodecr += nd
            continue
        new = find_missing_helpers(res, repo, extras, helper_callers)
        if new:
            extras += new
            continue
        # a rustc-level error located on a woven proof aid (hint / invariant / closure contract): that aid no longer fits the
        # changed code; drop exactly that aid and verify again (the contract clauses stay)
        progressed = False
        for u in res['undecided']:
            if not (u.get('unit') and u.get('code') and u.get('woven_line')):
                continue
            unit = next((x for x in res['map']['units'] if x['unit'] == u['unit']), None)
            for aid, l0, l1 in (unit or {}).get('aids', []):
                # on a woven line: any aid; on a source line: only a closure contract whose closure contains that line
                if u.get('src') is not None and not aid.startswith('closure:'):
                    continue
                if l0 <= u['woven_line'] <= l1 and aid not in drop.get(u['unit'], set()):
                    drop.setdefault(u['unit'], set()).add(aid)
                    progressed = True
        if progressed:
            continue
        nb = sorted(set(u['unit'] for u in res['undecided'] if u.get('unit') and u.get('code') and u.get('src') is None and u['unit'] not in bare
                        and not u['unit'].startswith('auto.')))
        if not nb:
            break
        bare += nb
    if extras:
        res['auto_extracted_helpers'] = ['%s :: %s' % (f, ' :: '.join(sg)) for f, sg in extras]
    # A failing obligation is a verdict only when the complete proof script that verifies the unchanged tree was applied.
    # If a proof aid of the unit could not be placed (anchor lost), had to be dropped (no longer type-checks), or the unit now
    # calls a helper that has no contract, the failure may be the missing aid's: UNDECIDED, never a violation.
    compromised = {}
    for u in (res.get('map') or {}).get('units', []):
        why = []
        if u.get('lost_anchors'):
            why.append('proof aid could not be placed: ' + '; '.join(u['lost_anchors'][:3]))
        if u.get('dropped_aids'):
            # an instance dropped from a closure the unchanged tree does not have (same parameter text, new closure) leaves the original
            # proof script complete: only drops that reduce the number of fitted instances below the recorded count compromise the unit
            import collections
            try:
                expected = json.load(open(os.path.join(VERIF, 'contracts', 'aid_counts.json'))).get(u['unit'], {})
            except Exception:
                expected = {}
            fitted = collections.Counter(re.sub(r'#\d+$', '', a_[0]) for a_ in u.get('aids', []))
            short = [d_ for d_ in u['dropped_aids'] if fitted.get(re.sub(r'#\d+$', '', str(d_)), 0) < expected.get(re.sub(r'#\d+$', '', str(d_)), 1 << 30)]
            if short:
                why.append('proof aid dropped (no longer type-checks): ' + '; '.join(map(str, short[:3])))
        if u['unit'] in bare:
            why.append('all proof aids dropped')
        if u['unit'] in nodecr:
            why.append('a loop of the changed code has no decreases clause / invariant (termination not checked)')
        if u['unit'].startswith('auto.'):
            why.append('function without contract (extracted automatically because contracted code calls it)')
        if u['unit'] in helper_callers:
            why.append('calls a function without contract: ' + ', '.join(sorted(helper_callers[u['unit']])))
        # (a substitution whose source text is gone is not a missing proof aid: if the code still needs it, rustc / Verus reject the unit)
        if why:
            compromised[u['unit']] = '; '.join(why)
    if nodecr and res['status'] == 'ok':
        res['status'] = 'undecided'
        res['reason'] = 'loop without decreases clause in %s: termination not checked' % ', '.join(nodecr)
        res.setdefault('undecided', []).append(dict(message=res['reason'], code=None, unit=nodecr[0], src=None, rendered='', woven_line=None))
    if compromised:
        keep = []
        for c in res.get('diags', []):
            if c.get('unit') in compromised:
                res.setdefault('undecided', []).append(dict(message='obligation %s fails, but the unit was not verified with its full proof script (%s)' % (
                    c.get('label') or c.get('kind'), compromised[c['unit']]), code=None, unit=c['unit'], src=c.get('src'), rendered=c.get('rendered'), woven_line=c.get('woven_line')))
            else:
                keep.append(c)
        if len(keep) != len(res.get('diags', [])):
            res['diags'] = keep
            if res['status'] == 'ok':
                res['status'] = 'undecided'
                res['reason'] = '; '.join('%s (%s)' % (u_['message'][:160], u_['unit']) for u_ in res['undecided'][:2])
        res['compromised_units'] = compromised
    if bare or drop:
        res['proof_aids_dropped'] = dict(all_aids_of=bare, single={k: sorted(v) for k, v in drop.items()})
    return res


def find_missing_helpers(res, repo, have, callers=None):
    from rsx import Source
    out = []
    mp = res.get('map') or {}
    for u in res.get('undecided', []):
        m = re.search(r'no (?:method|function or associated item|variant, associated function, or constant) named `(\w+)` found|cannot find function `(\w+)` in this scope', u.get('message', ''))
        if not m or not u.get('unit'):
            continue
        name = m.group(1) or m.group(2)
        unit = next((x for x in mp.get('units', []) if x['unit'] == u['unit']), None)
        if not unit:
            continue
        S = Source(unit['file'], open(os.path.join(repo, unit['file'])).read())
        segs = [sg.strip() for sg in unit['item'].split(' :: ')]
        cands = []
        if len(segs) > 1:
            cands.append(segs[:-1] + ['fn ' + name])
        cands.append(['fn ' + name])
        for c in cands:
            try:
                S.find(c)
            except Exception:
                continue
            # the function found is itself a unit of this group (a method of the same name on another type is missing): not a helper
            if any(x['file'] == unit['file'] and [sg.strip() for sg in x['item'].split(' :: ')] == c for x in mp.get('units', [])):
                continue
            key = (unit['file'], c)
            if callers is not None:
                callers.setdefault(unit['unit'], set()).add(name)
            if key not in [(f, sg) for f, sg in have + out]:
                out.append(key)
            break
    return out


def _run_group(group, repo, outdir, seed, rlimit, extra_args, log_air, timeout, extras, bare=(), drop=None, nodecr=()):
    outdir = outdir or os.environ.get('VERIF_BUILD') or os.path.join(VERIF, 'build')
    t0 = time.time()
    res = dict(group=group, status='ok', reason=None, diags=[], undecided=[], units=[], obligations={}, time_s=0.0)
    try:
        path, mp, lines = weave_group(group, repo, outdir, extras=extras, bare=bare, drop_aids=drop, nodecr=nodecr)
    except SliceError as e:
        res.update(status='undecided', reason='anchor: %s' % e)
        return res
    res['woven'] = path
    res['map'] = mp
    assumptions, cheats = scan_assumptions(lines, mp)
    res['assumptions'] = assumptions
    if cheats:
        res.update(status='undecided', reason='assume/admit inside a function under contract: %r' % cheats[:3])
        return res
    logdir = os.path.join(outdir, group + '.log')
    subprocess.run(['rm', '-rf', logdir])
    cfg = GROUP_CFG.get(group, {})
    rl = rlimit or cfg.get('rlimit', 30)
    cmd = ['verus', path, '--output-json', '--time', '--error-format=json', '--multiple-errors', str(cfg.get('multiple_errors', 10)),
           '--triggers-mode', 'silent', '--rlimit', str(rl), '--smt-option', 'smt.random_seed=%d' % (seed % 1000)]
    if log_air:
        cmd += ['--log', 'air-final', '--log-dir', logdir]
    cmd += list(extra_args)
    res['cmd'] = ' '.join(cmd)
    try:
        p = subprocess.run(cmd, stdout=subprocess.PIPE, stderr=subprocess.PIPE, text=True, timeout=timeout, cwd=outdir)
    except subprocess.TimeoutExpired:
        res.update(status='undecided', reason='verus timeout after %ds' % timeout)
        return res
    res['time_s'] = round(time.time() - t0, 2)
    woven_name = os.path.basename(path)
    # stdout: the JSON report
    try:
        rep = json.loads(p.stdout[p.stdout.index('{'):])
    except Exception:
        rep = None
    compile_errors = []
    for l in p.stderr.split('\n'):
        l = l.strip()
        if not l.startswith('{'):
            continue
        try:
            d = json.loads(l)
        except Exception:
            continue
        if d.get('level') != 'error':
            continue
        msg = d.get('message', '')
        if msg.startswith('aborting due to'):
            continue
        code = (d.get('code') or {}).get('code') if d.get('code') else None
        c = classify(d, mp, woven_name, lines)
        if code or UNDECIDED_PAT.search(msg) or (c['kind'] == 'other' and not c['label']):
            # rustc-level error, unsupported construct, resource limit: not a verdict
            res['undecided'].append(dict(message=msg, code=code, unit=c['unit'], src=c['src'], rendered=c['rendered'], woven_line=c.get('woven_line')))
            continue
        if c['kind'] == 'recommends':
            continue
        if c.get('tool_limit'):
            res['undecided'].append(dict(message=c['tool_limit'], code=None, unit=c['unit'], src=c['src'], rendered=c['rendered'], woven_line=c.get('woven_line')))
            continue
        res['diags'].append(c)
    if rep is None:
        res.update(status='undecided', reason='no verus report (rc=%s): %s' % (p.returncode, p.stderr[-400:]))
        return res
    vr = rep.get('verification-results', {})
    res['verified'] = vr.get('verified', 0)
    res['errors'] = vr.get('errors', 0)
    res['smt_ms'] = rep.get('times-ms', {}).get('smt', {}).get('total')
    res['verus_version'] = rep.get('verus', {}).get('version')
    fb = []
    for mt in rep.get('times-ms', {}).get('smt', {}).get('smt-run-module-times', []):
        fb += mt.get('function-breakdown', [])
    res['functions'] = {f['function']: dict(success=f['success'], time_ms=f['time'], rlimit=f['rlimit']) for f in fb}
    if vr.get('encountered-vir-error') or (not vr and p.returncode != 0):
        res['status'] = 'undecided'
        res['reason'] = 'front-end error: ' + '; '.join(u['message'] for u in res['undecided'][:3])
    elif res['undecided']:
        res['status'] = 'undecided'
        res['reason'] = '; '.join('%s (%s)' % (u['message'][:120], u['unit']) for u in res['undecided'][:3])
    if mp.get('uncontracted'):
        # an impl block whose methods are all under contract gained a method without one: its behaviour is outside every contract
        for msg_ in mp['uncontracted']:
            res['undecided'].append(dict(message='contract / code inventory mismatch: ' + msg_, code=None, unit=None, src=None, rendered=msg_, woven_line=None))
        if res['status'] == 'ok':
            res['status'] = 'undecided'
            res['reason'] = '; '.join(mp['uncontracted'][:3])
    if log_air:
        # one AIR file per module of the woven file (units normally live in the root module; group `ser` keeps them in `mod ser`)
        per_unit, other = {}, 0
        for af in sorted(os.listdir(logdir)) if os.path.isdir(logdir) else []:
            if af.endswith('-final.air') and '!' not in af:
                pu, ot = count_obligations(os.path.join(logdir, af), mp, woven_name)
                for k_, v_ in pu.items():
                    per_unit[k_] = per_unit.get(k_, 0) + v_
                other += ot
        res['obligations'] = per_unit
        res['obligations_prelude'] = other
    # consistency: every error must be explained by a diag; otherwise undecided
    if res['status'] == 'ok' and res['errors'] and not res['diags']:
        res.update(status='undecided', reason='verus reported %d failing functions but no classified diagnostic' % res['errors'])
    # diags outside any unit (prelude lemma) are machinery failures, not verdicts
    for c in list(res['diags']):
        if c['unit'] is None:
            res['diags'].remove(c)
            res['undecided'].append(dict(message='prelude obligation failed: ' + c['message'], unit=None, src=None, rendered=c['rendered'], code=None))
            res['status'] = 'undecided'
            res['reason'] = 'prelude obligation failed: %s' % c['message']
    return res


if __name__ == '__main__':
    import argparse
    ap = argparse.ArgumentParser()
    ap.add_argument('group')
    ap.add_argument('--repo', default=os.environ.get('VERIF_REPO', '/repo'))
    ap.add_argument('-v', action='store_true')
    a = ap.parse_args()
    r = run_group(a.group, a.repo)
    print('status=%s reason=%s verified=%s errors=%s time=%ss obligations=%s' % (
        r['status'], r['reason'], r.get('verified'), r.get('errors'), r['time_s'], sum(r.get('obligations', {}).values())))
    for c in r['diags']:
        print('  FAIL %-11s %-40s unit=%-28s props=%s  %s  | %s' % (c['kind'], c['label'] or '-', c['unit'], ','.join(c['props']), c['src'], c['src_text']))
        if a.v:
            print(c['rendered'])
    for u in r['undecided']:
        print('  UNDECIDED %s [%s] %s' % (u['message'][:200], u.get('unit'), u.get('src')))
        if a.v:
            print(u.get('rendered'))
