"""Generate contracts/ser.*.vspec (property C17) from a compact table: one contract file per method of the serializers of
interpreter/src/ser.rs.  The contracts are written from the property statement (the CEL shape each serde data-model node
must take); the generator only spares writing ~110 files by hand.  Run after editing the table; the files are committed."""
import os, re
VERIF = os.path.dirname(os.path.dirname(os.path.abspath(__file__)))
OUT = os.path.join(VERIF, 'contracts')
F = 'interpreter/src/ser.rs'

ASSOC = {  # Self::X of each serializer impl (implas drops the trait, so the associated types are spelled out)
    'value': dict(SerializeSeq='SerializeVec', SerializeTuple='SerializeVec', SerializeTupleStruct='SerializeVec',
                  SerializeTupleVariant='SerializeTupleVariant', SerializeMap='SerializeMap', SerializeStruct='SerializeMap',
                  SerializeStructVariant='SerializeStructVariant'),
    'key': {k: 'Impossible<Key, SerializationError>' for k in ['SerializeSeq', 'SerializeTuple', 'SerializeTupleStruct', 'SerializeTupleVariant',
                                                                 'SerializeMap', 'SerializeStruct', 'SerializeStructVariant']},
    'time': dict(SerializeSeq='SerializeVec', SerializeTuple='SerializeVec', SerializeTupleStruct='SerializeVec',
                 SerializeTupleVariant='SerializeTupleVariant', SerializeMap='SerializeMap', SerializeStruct='SerializeTimestamp',
                 SerializeStructVariant='SerializeStructVariant'),
}
IMPL = {'value': ('impl ser::Serializer for Serializer', 'impl Serializer'),
        'key': ('impl ser::Serializer for KeySerializer', 'impl KeySerializer'),
        'time': ('impl ser::Serializer for TimeSerializer', 'impl TimeSerializer')}

OKV = 'Ok::<Value, SerializationError>'
OKK = 'Ok::<Key, SerializationError>'
INVALID = 'res matches Err(SerializationError::InvalidKey(_))'

units = []


def U(name, src_impl, fn, implas, ensures, subs=(), sigs=(), extra=(), decls=()):
    units.append(dict(name=name, src='%s :: %s :: fn %s' % (F, src_impl, fn) if src_impl else '%s :: fn %s' % (F, fn), implas=implas,
                      ensures=ensures, subs=list(subs), sigs=list(sigs), extra=list(extra), decls=list(decls)))


def ser_method(kind, fn, ensures, subs=(), sigs=(), extra=()):
    src_impl, implas = IMPL[kind]
    sg = list(sigs)
    assoc = {'serialize_seq': 'SerializeSeq', 'serialize_tuple': 'SerializeTuple', 'serialize_tuple_struct': 'SerializeTupleStruct',
             'serialize_tuple_variant': 'SerializeTupleVariant', 'serialize_map': 'SerializeMap', 'serialize_struct': 'SerializeStruct',
             'serialize_struct_variant': 'SerializeStructVariant'}.get(fn)
    if assoc:
        sg.append(('Self::' + assoc + '>', ASSOC[kind][assoc] + '>'))
    U('ser.%s.%s' % (kind, fn), src_impl, fn, implas, ensures, subs, sg, extra)


# ---------------------------------------------------------------- Serializer (values)
V = 'value'
ser_method(V, 'serialize_bool', [('bool_becomes_bool', 'res == %s(Value::Bool(v))' % OKV)])
for w in ('i8', 'i16', 'i32', 'i64'):
    ser_method(V, 'serialize_' + w, [('signed_integers_become_int_of_the_same_number', 'res == %s(Value::Int(v as i64))' % OKV)])
for w in ('u8', 'u16', 'u32', 'u64'):
    ser_method(V, 'serialize_' + w, [('unsigned_integers_become_uint_of_the_same_number', 'res == %s(Value::UInt(v as u64))' % OKV)])
ser_method(V, 'serialize_f32', [('floats_become_double', 'res == %s(Value::Float(f32_widen(v)))' % OKV)], subs=[('R6', 'f64::from(v)', '__f64_from_f32(v)')])
ser_method(V, 'serialize_f64', [('floats_become_double', 'res == %s(Value::Float(v))' % OKV)])
ser_method(V, 'serialize_char', [('char_becomes_the_one_character_string', 'res matches Ok(r) && is_str(r, seq![v])')], subs=[('R6', 'v.to_string()', '__char_to_string(v)')])
ser_method(V, 'serialize_str', [('strings_become_the_same_string', 'res matches Ok(r) && is_str(r, v@)')], subs=[('R6', 'v.to_string()', '__str_to_string(v)')])
ser_method(V, 'serialize_bytes', [('bytes_become_the_same_bytes', 'res matches Ok(Value::Bytes(b)) && b@ == v@')], subs=[('R6', 'v.to_vec()', '__bytes_to_vec(v)')])
ser_method(V, 'serialize_none', [('none_and_unit_become_null', 'res == %s(Value::Null)' % OKV)])
ser_method(V, 'serialize_unit', [('none_and_unit_become_null', 'res == %s(Value::Null)' % OKV)])
ser_method(V, 'serialize_unit_struct', [('none_and_unit_become_null', 'res == %s(Value::Null)' % OKV)])
ser_method(V, 'serialize_some', [('some_becomes_the_inner_value', 'res == value.cel()')], subs=[('R6', 'value.serialize(self)', '__ser_value(value)')])
ser_method(V, 'serialize_unit_variant', [('unit_variant_becomes_its_name', 'res matches Ok(r) && is_str(r, variant@)')])
ser_method(V, 'serialize_newtype_struct',
           [('newtype_struct_becomes_the_inner_value_unless_it_is_a_time_marker',
             'res == (if name@ == Duration::NAME@ { value.cel_time(TimeSerializer::Duration) } else if name@ == Timestamp::NAME@ { value.cel_time(TimeSerializer::Timestamp) } else { value.cel() })')],
           subs=[('R6', 'value.serialize(TimeSerializer::Duration)', '__ser_time(value, TimeSerializer::Duration)'),
                 ('R6', 'value.serialize(TimeSerializer::Timestamp)', '__ser_time(value, TimeSerializer::Timestamp)'),
                 ('R6', 'value.serialize(self)', '__ser_value(value)')],
           extra=['entry\n        proof { reveal_strlit("$__cel_private_Duration"); reveal_strlit("$__cel_private_Timestamp"); }'])
ser_method(V, 'serialize_newtype_variant',
           [('newtype_variant_becomes_a_single_entry_map', 'value.cel() matches Ok(inner) ==> res matches Ok(r) && single_entry(r, variant@, inner)'),
            ('newtype_variant_propagates_the_inner_error', 'value.cel() is Err ==> res is Err')],
           subs=[('R6', 'HashMap::from_iter([(variant.to_string(), value.serialize(Serializer)?)]).into()',
                  '__strmap_into_value(__hashmap_of_one(__str_to_string(variant), __ser_value(value)?))')])
EMPTY_SEQ = 'res matches Ok(s) && s.vec@ == Seq::<Value>::empty()'
ser_method(V, 'serialize_seq', [('a_sequence_starts_empty', EMPTY_SEQ)])
ser_method(V, 'serialize_tuple', [('a_sequence_starts_empty', EMPTY_SEQ)])
ser_method(V, 'serialize_tuple_struct', [('a_sequence_starts_empty', EMPTY_SEQ)])
ser_method(V, 'serialize_tuple_variant', [('a_tuple_variant_starts_empty_under_its_name', 'res matches Ok(s) && s.vec@ == Seq::<Value>::empty() && s.name@ == variant@')],
           subs=[('R6', 'String::from(variant)', '__str_to_string(variant)')])
EMPTY_MAP = 'res matches Ok(s) && s.map@ == vstd::map::Map::<Key, Value>::empty() && s.next_key is None'
ser_method(V, 'serialize_map', [('a_map_starts_empty', EMPTY_MAP)])
ser_method(V, 'serialize_struct', [('a_map_starts_empty', EMPTY_MAP)])
ser_method(V, 'serialize_struct_variant', [('a_struct_variant_starts_empty_under_its_name', 'res matches Ok(s) && s.map@ == vstd::map::Map::<Key, Value>::empty() && s.name@ == variant@')],
           subs=[('R6', 'String::from(variant)', '__str_to_string(variant)')])

# methods serde provides a default for (an error): contracts woven only if the code defines them
OPTIONAL = []
ser_method(V, 'serialize_i128', [('a_wide_signed_integer_is_the_same_number_or_an_error', 'match res { Ok(r) => (r matches Value::Int(x) && x as int == v as int), Err(_) => true }')])
ser_method(V, 'serialize_u128', [('a_wide_unsigned_integer_is_the_same_number_or_an_error', 'match res { Ok(r) => (r matches Value::UInt(x) && x as int == v as int), Err(_) => true }')])
OPTIONAL += ['ser.value.serialize_i128', 'ser.value.serialize_u128']
# ---------------------------------------------------------------- compound serializers
PUSH = [('an_element_is_appended_in_order', 'value.cel() matches Ok(e) ==> res is Ok && final(self).vec@ == old(self).vec@.push(e)'),
        ('a_failing_element_fails_the_sequence', 'value.cel() is Err ==> res is Err')]
LIST_END = [('the_sequence_becomes_the_list_of_its_elements_in_order', 'res matches Ok(Value::List(l)) && l@ == self.vec@')]
U('ser.seq.serialize_element', 'impl ser::SerializeSeq for SerializeVec', 'serialize_element', 'impl SerializeVec', PUSH)
U('ser.seq.end', 'impl ser::SerializeSeq for SerializeVec', 'end', 'impl SerializeVec', LIST_END)
U('ser.tuple.serialize_element', 'impl ser::SerializeTuple for SerializeVec', 'serialize_element', 'impl SerializeVec', PUSH,
  subs=[('R26', 'serde::ser::SerializeSeq::serialize_element(self, value)', 'self.serialize_element(value)')], sigs=[('fn serialize_element<T>', 'fn tuple__serialize_element<T>')])
U('ser.tuple.end', 'impl ser::SerializeTuple for SerializeVec', 'end', 'impl SerializeVec', LIST_END,
  subs=[('R26', 'serde::ser::SerializeSeq::end(self)', 'self.end()')], sigs=[('fn end(', 'fn tuple__end(')])
U('ser.tuple_struct.serialize_field', 'impl ser::SerializeTupleStruct for SerializeVec', 'serialize_field', 'impl SerializeVec', PUSH,
  subs=[('R26', 'serde::ser::SerializeSeq::serialize_element(self, value)', 'self.serialize_element(value)')])
U('ser.tuple_struct.end', 'impl ser::SerializeTupleStruct for SerializeVec', 'end', 'impl SerializeVec', LIST_END,
  subs=[('R26', 'serde::ser::SerializeSeq::end(self)', 'self.end()')], sigs=[('fn end(', 'fn tuple_struct__end(')])
U('ser.tuple_variant.serialize_field', 'impl ser::SerializeTupleVariant for SerializeTupleVariant', 'serialize_field', 'impl SerializeTupleVariant',
  PUSH + [('the_variant_name_is_kept', 'final(self).name == old(self).name')])
U('ser.tuple_variant.end', 'impl ser::SerializeTupleVariant for SerializeTupleVariant', 'end', 'impl SerializeTupleVariant',
  [('a_tuple_variant_becomes_the_single_entry_map_of_its_name_to_the_list', 'res matches Ok(r) && single_entry_list(r, self.name@, self.vec@)')],
  subs=[('R6', 'HashMap::from_iter([(self.name, Arc::new(self.vec))])', '__hashmap_of_one(self.name, Arc::new(self.vec))'),
        ('R6', 'Ok(map.into())', 'Ok(__strlistmap_into_value(map))')])
U('ser.map.serialize_key', 'impl ser::SerializeMap for SerializeMap', 'serialize_key', 'impl SerializeMap',
  [('the_key_is_converted_by_the_key_serializer_and_remembered', 'key.cel_key() matches Ok(k) ==> res is Ok && final(self).next_key == Some(k) && final(self).map@ == old(self).map@'),
   ('an_unsupported_key_fails_the_map', 'key.cel_key() is Err ==> res is Err && final(self).map@ == old(self).map@')],
  subs=[('R6', 'key.serialize(KeySerializer)', '__ser_key(key)')])
U('ser.map.serialize_value', 'impl ser::SerializeMap for SerializeMap', 'serialize_value', 'impl SerializeMap',
  [('the_entry_is_inserted_under_the_remembered_key', 'match (old(self).next_key, value.cel()) { (Some(k), Ok(e)) => res is Ok && final(self).map@ == old(self).map@.insert(k, e), _ => true }'),
   ('a_value_without_key_or_a_failing_value_fails_the_map', '(old(self).next_key is None || value.cel() is Err) ==> res is Err && final(self).map@ == old(self).map@')],
  subs=[('R6', '"serialize_value called before serialize_key".to_string()', '__str_to_string("serialize_value called before serialize_key")'),
        ('R6', 'value.serialize(Serializer)', '__ser_value(value)')],
  extra=['entry\n        proof { axiom_key_model(); }'])
MAP_END = [('the_map_becomes_the_map_of_exactly_its_entries', 'res matches Ok(Value::Map(m)) && m.map@ == self.map@')]
U('ser.map.end', 'impl ser::SerializeMap for SerializeMap', 'end', 'impl SerializeMap', MAP_END,
  subs=[('R6', 'Ok(self.map.into())', 'Ok(__keymap_into_value(self.map))')])
FIELD = [('a_field_is_inserted_under_its_name', 'value.cel() matches Ok(e) ==> res is Ok && (key.cel_key() matches Ok(k) && is_key_str(k, key@) && final(self).map@ == old(self).map@.insert(k, e))'),
         ('a_failing_field_fails_the_struct', 'value.cel() is Err ==> res is Err')]
U('ser.struct.serialize_field', 'impl ser::SerializeStruct for SerializeMap', 'serialize_field', 'impl SerializeMap', FIELD,
  subs=[('R26', 'serde::ser::SerializeMap::serialize_entry(self, key, value)', '{ self.serialize_key(key)?; self.serialize_value(value) }')],
  extra=['entry\n        proof { axiom_str_cel_key(key); }'])
U('ser.struct.end', 'impl ser::SerializeStruct for SerializeMap', 'end', 'impl SerializeMap', MAP_END,
  subs=[('R26', 'serde::ser::SerializeMap::end(self)', 'self.end()')], sigs=[('fn end(', 'fn struct__end(')])
U('ser.struct_variant.serialize_field', 'impl ser::SerializeStructVariant for SerializeStructVariant', 'serialize_field', 'impl SerializeStructVariant',
  FIELD + [('the_variant_name_is_kept', 'final(self).name == old(self).name')],
  subs=[('R6', 'key.serialize(KeySerializer)', '__ser_key(key)')],
  extra=['entry\n        proof { axiom_key_model(); axiom_str_cel_key(key); }'])
U('ser.struct_variant.end', 'impl ser::SerializeStructVariant for SerializeStructVariant', 'end', 'impl SerializeStructVariant',
  [('a_struct_variant_becomes_the_single_entry_map_of_its_name_to_the_map_of_its_fields',
    'res matches Ok(r) && single_entry_map(r, self.name@, self.map@)')],
  subs=[('R6', 'HashMap::from_iter([(self.name, self.map.into())])', '__hashmap_of_one(self.name, __keymap_into_value(self.map))'),
        ('R6', 'Ok(map.into())', 'Ok(__strmap_into_value(map))')])
U('ser.to_value', None, 'to_value', None, [('to_value_is_the_value_serializer', 'res == value.cel()')],
  subs=[('R6', 'value.serialize(Serializer)', '__ser_value(&value)')])

# ---------------------------------------------------------------- KeySerializer
K = 'key'
ser_method(K, 'serialize_bool', [('bool_keys', 'res == %s(Key::Bool(v))' % OKK)])
for w in ('i8', 'i16', 'i32', 'i64'):
    ser_method(K, 'serialize_' + w, [('signed_integer_keys_become_int_keys', 'res == %s(Key::Int(v as i64))' % OKK)])
for w in ('u8', 'u16', 'u32', 'u64'):
    ser_method(K, 'serialize_' + w, [('unsigned_integer_keys_become_uint_keys', 'res == %s(Key::Uint(v as u64))' % OKK)])
REJ = [('other_kinds_of_key_are_rejected', INVALID)]
for fn, lit in (('serialize_f32', 'Float is not supported'), ('serialize_f64', 'Float is not supported'), ('serialize_bytes', 'Bytes are not supported'),
                ('serialize_none', 'None is not supported'), ('serialize_unit', 'Null is not supported'),
                ('serialize_unit_struct', 'Empty unit structs are not supported'), ('serialize_newtype_variant', 'Newtype variant is not supported'),
                ('serialize_seq', 'Sequences are not supported'), ('serialize_tuple', 'Tuples are not supported'),
                ('serialize_tuple_struct', 'Structs are not supported'), ('serialize_tuple_variant', 'Tuple variants are not supported'),
                ('serialize_map', 'Map variants are not supported'), ('serialize_struct', 'Structs are not supported'),
                ('serialize_struct_variant', 'Struct variants are not supported')):
    ser_method(K, fn, REJ, subs=[('R6', '"%s".to_string()' % lit, '__str_to_string("%s")' % lit)])
ser_method(K, 'serialize_char', [('string_like_keys_become_string_keys', 'res matches Ok(k) && is_key_str(k, seq![v])')], subs=[('R6', 'v.to_string()', '__char_to_string(v)')])
ser_method(K, 'serialize_str', [('string_like_keys_become_string_keys', 'res matches Ok(k) && is_key_str(k, v@)')], subs=[('R6', 'v.to_string()', '__str_to_string(v)')])
ser_method(K, 'serialize_unit_variant', [('string_like_keys_become_string_keys', 'res matches Ok(k) && is_key_str(k, variant@)')],
           subs=[('R6', 'variant.to_string()', '__str_to_string(variant)')])
ser_method(K, 'serialize_some', [('some_key_is_the_inner_key', 'res == value.cel_key()')], subs=[('R6', 'value.serialize(self)', '__ser_key(value)')])
ser_method(K, 'serialize_newtype_struct', [('newtype_key_is_the_inner_key', 'res == value.cel_key()')], subs=[('R6', 'value.serialize(KeySerializer)', '__ser_key(value)')])

ser_method(K, 'serialize_i128', [('a_wide_signed_integer_key_is_the_same_number_or_an_error', 'match res { Ok(k) => (k matches Key::Int(x) && x as int == v as int), Err(_) => true }')])
ser_method(K, 'serialize_u128', [('a_wide_unsigned_integer_key_is_the_same_number_or_an_error', 'match res { Ok(k) => (k matches Key::Uint(x) && x as int == v as int), Err(_) => true }')])
OPTIONAL += ['ser.key.serialize_i128', 'ser.key.serialize_u128']
# ---------------------------------------------------------------- TimeSerializer + SerializeTimestamp
T = 'time'
ser_method(T, 'serialize_struct',
           [('only_the_duration_marker_with_a_two_field_duration_struct_is_accepted',
             '(self is Duration && name@ == Duration::STRUCT_NAME@ && len == 2) ==> res matches Ok(s) && s.secs == 0 && s.nanos == 0'),
            ('anything_else_is_an_error', '!(self is Duration && name@ == Duration::STRUCT_NAME@ && len == 2) ==> res matches Err(SerializationError::SerdeError(_))')],
           subs=[('R6', '"expected Duration struct with Duration marker newtype struct".to_owned()', '__str_to_string("expected Duration struct with Duration marker newtype struct")'),
                 ('R6', '"expected Duration struct to have 2 fields".to_owned()', '__str_to_string("expected Duration struct to have 2 fields")'),
                 ('R6', 'SerializeTimestamp::default()', 'SerializeTimestamp { secs: 0, nanos: 0 }'),
                 ('R6', 'name != Duration::STRUCT_NAME', '!__str_eq(name, Duration::STRUCT_NAME)')])
ser_method(T, 'serialize_str',
           [('the_timestamp_marker_parses_rfc3339_text_keeping_instant_and_offset', 'self is Timestamp ==> (match chrono_text::parse_text(v@) { Some(t) => res == %s(Value::Timestamp(t)), None => res matches Err(SerializationError::SerdeError(_)) })' % OKV),
            ('the_duration_marker_rejects_text', '!(self is Timestamp) ==> (res matches Err(SerializationError::SerdeError(_)))')],
           subs=[('R6', '"expected Timestamp string with Timestamp marker newtype struct".to_owned()', '__str_to_string("expected Timestamp string with Timestamp marker newtype struct")'),
                 ('R6', 'e.to_string()', 'chrono_text::__parse_error_text(&e)')],
           extra=['entry\n        proof { chrono_text::axiom_chrono_text(); }', 'closure "|e|"\n    -> (o: SerializationError) ensures o is SerdeError'])
for fn in ('serialize_bool', 'serialize_i8', 'serialize_i16', 'serialize_i32', 'serialize_i64', 'serialize_u8', 'serialize_u16', 'serialize_u32', 'serialize_u64',
           'serialize_f32', 'serialize_f64', 'serialize_char', 'serialize_bytes', 'serialize_none', 'serialize_some', 'serialize_unit', 'serialize_unit_struct',
           'serialize_unit_variant', 'serialize_newtype_struct', 'serialize_newtype_variant', 'serialize_seq', 'serialize_tuple', 'serialize_tuple_struct',
           'serialize_tuple_variant', 'serialize_map', 'serialize_struct_variant'):
    ser_method(T, fn, [('a_marker_newtype_around_anything_else_is_an_error_not_a_panic', 'res is Err')])
U('ser.time.unexpected', 'impl TimeSerializer', 'unexpected', None, [('an_unexpected_payload_is_an_error', 'res is Err')],
  subs=[('R6', '"unexpected value in Duration/Timestamp marker newtype struct".to_owned()', '__str_to_string("unexpected value in Duration/Timestamp marker newtype struct")')])
U('ser.timestamp.serialize_field', 'impl ser::SerializeStruct for SerializeTimestamp', 'serialize_field', 'impl SerializeTimestamp',
  [('secs_and_nanos_fields_are_taken_from_int_values',
    'match value.cel() { Ok(Value::Int(n)) => key@ == Duration::SECS_FIELD@ ==> res is Ok && final(self).secs == n && final(self).nanos == old(self).nanos, _ => true }'),
   ('nanos_must_fit_32_bits',
    'match value.cel() { Ok(Value::Int(n)) => (key@ == Duration::NANOS_FIELD@ && key@ != Duration::SECS_FIELD@) ==> (if i32::MIN <= n <= i32::MAX { res is Ok && final(self).nanos == n && final(self).secs == old(self).secs } else { res is Err }), _ => true }'),
   ('other_fields_and_other_kinds_of_value_are_errors',
    '((key@ != Duration::SECS_FIELD@ && key@ != Duration::NANOS_FIELD@) || !(value.cel() matches Ok(Value::Int(_)))) ==> res is Err')],
  sigs=[('std::result::Result<(), Self::Error>', 'std::result::Result<(), SerializationError>')],
  subs=[('R6', 'value.serialize(Serializer)', '__ser_value(value)'),
        ('R6', '"invalid type of value in timestamp struct".to_owned()', '__str_to_string("invalid type of value in timestamp struct")'),
        ('R6', '"timestamp struct nanos field is invalid".to_owned()', '__str_to_string("timestamp struct nanos field is invalid")'),
        ('R6', '"invalid field in duration struct".to_owned()', '__str_to_string("invalid field in duration struct")')],
  extra=['entry\n        proof { reveal_strlit("secs"); reveal_strlit("nanos"); }'])
U('ser.timestamp.end', 'impl ser::SerializeStruct for SerializeTimestamp', 'end', 'impl SerializeTimestamp',
  [('the_duration_is_secs_plus_nanos_or_an_error_never_a_panic',
    'match res { Ok(v) => v matches Value::Duration(d) && chrono::dur_ns(d) == self.secs as int * 1_000_000_000 + self.nanos as int, Err(_) => true }')],
  sigs=[('std::result::Result<Self::Ok, Self::Error>', 'std::result::Result<Value, SerializationError>')],
  subs=[('R6', '"duration is out of range".to_owned()', '__str_to_string("duration is out of range")'),
        ],
  extra=['closure "|secs|"\n    -> (o: Option<chrono::Duration>)\n        ensures o == (if chrono::dur_ok(chrono::dur_ns(secs) + self.nanos as int) { o } else { None::<chrono::Duration> }), o matches Some(d) ==> chrono::dur_ns(d) == chrono::dur_ns(secs) + self.nanos as int'])


# the methods serde_json::Value's own Serialize impl drives (the import direction of C18: to_value(&serde_json::Value))
JSON_UNITS = set('ser.' + x for x in ['value.serialize_unit', 'value.serialize_bool', 'value.serialize_i64', 'value.serialize_u64', 'value.serialize_f64',
                                      'value.serialize_str', 'value.serialize_seq', 'seq.serialize_element', 'seq.end', 'value.serialize_map',
                                      'map.serialize_key', 'map.serialize_value', 'map.end', 'key.serialize_str', 'to_value'])


def esc(s):
    return s.replace('\\', '\\\\').replace('"', '\\"')


def main():
    for f in os.listdir(OUT):
        if f.startswith('ser.') and f.endswith('.vspec'):
            os.remove(os.path.join(OUT, f))
    for u in units:
        kind = u['name'].split('.')[1]
        L = ['unit %s' % u['name'], 'source %s' % u['src']]
        if u['implas']:
            L.append('implas %s' % u['implas'])
        L += ['props-safety C17' + (' C18' if u['name'] in JSON_UNITS else ''), 'props-internal C17' + (' C18' if u['name'] in JSON_UNITS else '')]
        for a, b in u['sigs']:
            L.append('sig "%s" => "%s"' % (esc(a), esc(b)))
        for rid, a, b in u['subs']:
            if rid == 'W':
                L.append('subw R6 "%s" => "%s"' % (esc(a), esc(b)))
            else:
                L.append('sub %s "%s" => "%s"' % (rid, esc(a), esc(b)))
        both = u['name'] in JSON_UNITS
        for lab, text in u['ensures']:
            text = re.sub(r'==> ((?:(?!==>).)*\bmatches\b.*)$', r'==> (\1)', text)
            L.append('ensures [%s.%s.%s]\n    %s' % ('C17+C18' if both else 'C17', u['name'][4:], lab, text))
        L += u['extra']
        open(os.path.join(OUT, u['name'] + '.vspec'), 'w').write('\n'.join(L) + '\n')
    print(len(units), 'contract files written')
    # the decl anchors (rename tracking) of the regenerated files
    import subprocess, sys
    subprocess.call([sys.executable, os.path.join(VERIF, 'tools', 'mkdecls.py')], stdout=subprocess.DEVNULL)
    return units


if __name__ == '__main__':
    main()
    # the //@verify lines of groups/ser.rs
    print('\n'.join('//@verify%s %s' % ('-if-present' if u['name'] in OPTIONAL else '', u['name']) for u in units))
    for c in sorted(set(u['src'].rsplit(' :: ', 1)[0] for u in units if ' :: impl' in u['src'])):
        print('//@complete %s' % c)
