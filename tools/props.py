"""Which machinery decides which property.  Kept as data so that MANIFEST.json, evidence and
DESIGN.md can be cross-checked against it."""

C08_KANI = ['c08_add_int', 'c08_sub_int', 'c08_add_uint', 'c08_sub_uint', 'c08_div_int_guards', 'c08_rem_int_guards',
            'c08_divrem_uint_guards', 'c08_mixed_int_uint', 'c08_mixed_uint_int', 'c08_mixed_int_float',
            'c08_mixed_float_int', 'c08_mixed_uint_float', 'c08_mixed_float_uint']

PROPS = {
    'C08': dict(
        level='proof',
        verus_groups=['ops'],
        kani_quick=C08_KANI,
        kani_thorough=['c08_mul_int', 'c08_mul_uint'],
        trusted_base=['vstd specs of checked_add/sub/mul/div/rem', 'machine / and % as modelled by CBMC'],
        not_covered=['unary minus lives in Value::resolve (group interp)'],
    ),
}
