"""Weaver: group template + contracts/*.vspec + real source text from the repository
   ==> one Verus input file + a line/label map.

Template directives (lines of groups/<group>.rs starting with `//@`):
    //@include <file relative to /verif>
    //@item <repo file> :: <item path>            real item verbatim (attributes / doc comments stripped)
    //@verify <unit>                               real function, contract from contracts/<unit>.vspec
    //@assume <unit>                               same signature + same contract, body replaced by
                                                   unimplemented!() under #[verifier::external_body]
                                                   (counted as an assumption, never as proved)

Contract file (contracts/<unit>.vspec): keyword lines at column 0, continuation lines indented.
    unit <name>
    source <repo file> :: <item path ...>
    props-safety C02 ...        properties that own Verus' automatic obligations of this function
    props-internal C03 ...      properties that own invariants / hint asserts / termination of it
    result <binder>             name given to the return value (default res)
    attr <attribute>            e.g. #[verifier::loop_isolation(false)]
    requires [LABEL]? <expr>
    ensures [LABEL] <expr>
    decreases <expr>
    entry                       ghost text inserted at the top of the body
    loop N                      text inserted between the header of the N-th loop and its `{`
    closure N                   text inserted after the parameter list of the N-th closure
    at before|after "<anchor>"  ghost text inserted before/after the line holding the anchor
    sub <rule> "<old>" => "<new>"      exact textual substitution (must match, else anchor lost)
    sig "<old>" => "<new>"             same, on the signature
"""
import json
import os
import re
import sys

sys.path.insert(0, os.path.dirname(os.path.abspath(__file__)))
from rsx import Source, SliceError, mask, match_close, find_loops, find_closures, norm  # noqa: E402

VERIF = os.path.dirname(os.path.dirname(os.path.abspath(__file__)))


# ------------------------------------------------------------------------------------------------
class MappedText:
    """Text plus, per line, the source line it came from (None for woven lines)."""

    def __init__(self, text, first_src_line):
        self.text = text
        self.origin = [first_src_line + k for k in range(text.count('\n') + 1)]

    def _line_idx(self, off):
        return self.text.count('\n', 0, off)

    def replace(self, a, b, new, woven=False):
        la, lb = self._line_idx(a), self._line_idx(b)
        newlines = new.count('\n')
        o = self.origin
        first = None if woven else o[la]
        mid = [first] * newlines
        # line la keeps its origin; extra new lines map to the first replaced line; lines after lb keep theirs
        self.origin = o[:la + 1] + mid + o[lb + 1:]
        self.text = self.text[:a] + new + self.text[b:]

    def insert_line_at(self, off, new):
        """insert `new` (one or more full lines, no trailing newline) as new lines starting at the
        beginning of the line that contains `off`"""
        ls = self.text.rfind('\n', 0, off) + 1
        li = self._line_idx(ls)
        k = new.count('\n') + 1
        self.text = self.text[:ls] + new + '\n' + self.text[ls:]
        self.origin = self.origin[:li] + [None] * k + self.origin[li:]

    def insert_line_after(self, off, new):
        le = self.text.find('\n', off)
        if le < 0:
            le = len(self.text)
            self.text += '\n'
            self.origin.append(None)
        li = self._line_idx(le)
        k = new.count('\n') + 1
        self.text = self.text[:le + 1] + new + '\n' + self.text[le + 1:]
        self.origin = self.origin[:li + 1] + [None] * k + self.origin[li + 1:]


# ------------------------------------------------------------------------------------------------
def parse_vspec(path):
    spec = dict(unit=None, source=None, props_safety=[], props_internal=[], result='res', attrs=[],
                requires=[], ensures=[], decreases=None, implextra=[], aftereach=[], regions=[], tail=None, tailbind=None, implas=None, entry=None, loops={}, closures={}, ats=[],
                subs=[], subres=[], sigsubs=[], path=path, notes=[], decls=[])
    cur = None

    def start(key, rest):
        nonlocal cur
        if key == 'unit':
            spec['unit'] = rest.strip()
            cur = None
        elif key == 'source':
            spec['source'] = rest.strip()
            cur = None
        elif key == 'props-safety':
            spec['props_safety'] = rest.split()
            cur = None
        elif key == 'props-internal':
            spec['props_internal'] = rest.split()
            cur = None
        elif key == 'result':
            spec['result'] = rest.strip()
            cur = None
        elif key == 'attr':
            spec['attrs'].append(rest.strip())
            cur = None
        elif key == 'after-each':
            m = re.match(r'\s*/((?:[^/\\]|\\.)*)/\s*(.*)$', rest)
            if not m:
                raise SliceError('%s: bad after-each line: %s' % (path, rest))
            cur = dict(rx=m.group(1), text=m.group(2))
            spec['aftereach'].append(cur)
        elif key == 'region':
            m = re.match(r'\s*/((?:[^/\\]|\\.)*)/\s*(.*)$', rest)
            if not m:
                raise SliceError('%s: bad region line: %s' % (path, rest))
            spec['regions'].append(dict(rx=m.group(1), props=m.group(2).split()))
            cur = None
        elif key == 'implextra':
            cur = dict(text=rest.strip())
            spec['implextra'].append(cur)
        elif key == 'note':
            spec['notes'].append(rest.strip())
            cur = None
        elif key in ('requires', 'ensures'):
            m = re.match(r'\s*\[([^\]]+)\]\s*(.*)$', rest)
            label, body = (m.group(1), m.group(2)) if m else (None, rest.strip())
            cur = dict(label=label, text=body)
            spec[key].append(cur)
        elif key == 'decreases':
            cur = dict(text=rest.strip())
            spec['decreases'] = cur
        elif key == 'implas':
            spec['implas'] = rest.strip()
            cur = None
        elif key == 'tailbind':
            spec['tailbind'] = rest.strip()
            cur = None
        elif key == 'tail':
            cur = dict(text=rest.strip())
            spec['tail'] = cur
        elif key == 'entry':
            cur = dict(text=rest.strip())
            spec['entry'] = cur
        elif key in ('loop', 'closure'):
            m = re.match(r'\s*"((?:[^"\\]|\\.)*)"\s*(.*)$', rest)
            if m:
                k = m.group(1).replace('\\"', '"')
                r = m.group(2)
            else:
                n, _, r = rest.strip().partition(' ')
                k = int(n)
            cur = dict(text=r.strip())
            spec['loops' if key == 'loop' else 'closures'][k] = cur
        elif key in ('at', 'at?'):
            # `at?`: an optional hint (the proof goes through without it on some code shapes): a lost anchor does not compromise the unit
            optional_ = key == 'at?'
            m = re.match(r'\s*(before|after)\s+"((?:[^"\\]|\\.)*)"(?:#(\d+))?\s*()$', rest)
            mr = re.match(r'\s*(before|after)\s+/((?:[^/\\]|\\.)*)/\s*(.*)$', rest)
            if m:
                cur = dict(where=m.group(1), anchor=bytes(m.group(2), 'utf-8').decode('unicode_escape'), text='', rx=False, nth=int(m.group(3)) if m.group(3) else None, optional=optional_)
            elif mr:
                cur = dict(where=mr.group(1), anchor=mr.group(2), text=mr.group(3), rx=True, optional=optional_)
            else:
                raise SliceError('%s: bad at-line: %s' % (path, rest))
            spec['ats'].append(cur)
        elif key == 'decl':
            m = re.match(r'\s*"((?:[^"\\]|\\.)*)"\s*$', rest)
            if not m:
                raise SliceError('%s: bad decl-line: %s' % (path, rest))
            spec['decls'].append(m.group(1).replace('\\"', '"').replace('\\\\', '\\'))
            cur = None
        elif key == 'rules':
            spec.setdefault('rulesets', []).extend(rest.split())
            cur = None
        elif key == 'subre':
            # regular-expression substitution (a rewrite rule applied to every match): subre R.. /regex/ => "replacement with \\1"
            m = re.match(r'\s*(R\d+[a-z]?)\s+/((?:[^/\\]|\\.)*)/\s*=>\s*"((?:[^"\\]|\\.)*)"\s*$', rest)
            if not m:
                raise SliceError('%s: bad subre-line: %s' % (path, rest))
            spec['subres'].append((m.group(1), m.group(2), m.group(3).replace('\\"', '"')))
            cur = None
        elif key in ('sub', 'sig', 'subw', 'sub!'):
            # `sub!`: an essential substitution -- the replaced expression is ACCEPTED by the verifier but uninterpreted there (floating-point
            # comparisons and casts), so when its anchor is lost the unit's failing obligations are undecided, not violations
            if key == 'sub!':
                key = 'sub'
                rest = re.sub(r'^(\s*)(R\d+[a-z]?)', r'\1\2!', rest, count=1)
            m = re.match(r'\s*(?:(R\d+[a-z]?!?)\s+)?"((?:[^"\\]|\\.)*)"\s*=>\s*"((?:[^"\\]|\\.)*)"\s*$', rest)
            if not m:
                raise SliceError('%s: bad %s-line: %s' % (path, key, rest))
            un = lambda s: s.replace('\\"', '"').replace('\\n', '\n').replace('\\\\', '\\')
            if key == 'subw':
                # whitespace-insensitive: any run of blanks / newlines in the source matches a blank of the pattern
                spec['subs'].append((m.group(1) or 'R?', ('W', un(m.group(2))), un(m.group(3))))
            else:
                (spec['subs'] if key == 'sub' else spec['sigsubs']).append((m.group(1) or 'R?', un(m.group(2)), un(m.group(3))))
            cur = None
        else:
            raise SliceError('%s: unknown keyword %r' % (path, key))

    for raw in open(path).read().split('\n'):
        if not raw.strip() or raw.lstrip().startswith('#!'):
            continue
        if raw[0] in ' \t':
            if cur is None:
                raise SliceError('%s: continuation without section: %r' % (path, raw))
            cur['text'] = (cur['text'] + '\n' + raw.rstrip()) if cur['text'] else raw.rstrip()
        else:
            key, _, rest = raw.partition(' ')
            start(key, rest)
    if not spec['unit'] or not spec['source']:
        raise SliceError('%s: unit/source missing' % path)
    return spec


# ------------------------------------------------------------------------------------------------
STRIP_ATTR = re.compile(
    r'^[ \t]*#\[(?:derive|error|inline|cfg_attr|doc|allow|must_use|from|source|non_exhaustive|default)\b[^\n]*\]\s*$|'
    r'^[ \t]*#\[cfg\(feature = "(?:chrono|regex)"\)\]\s*$|'
    r'^[ \t]*///[^\n]*$', re.M)


def strip_attrs(text, log):
    def rep(m):
        t = m.group(0).strip()
        if not t.startswith('///'):
            log.append(('R12', t))
        return ''
    return STRIP_ATTR.sub(rep, text)



RUST_KW = set("""as break const continue crate else enum extern false fn for if impl in let loop match mod move mut pub ref return
self Self static struct super trait true type unsafe use where while async await dyn Some None Ok Err proof assert ghost""".split())


def fuzzy_regex(anchor):
    """identifier-wildcard form of a text anchor: every lower-case identifier that is not a keyword may have been renamed
    (consistently: a repeated name must be renamed the same way); blanks match any run of white space"""
    out, names, pos = [], {}, 0
    for m in re.finditer(r'[A-Za-z_]\w*|\s+|.', anchor, re.S):
        t = m.group(0)
        if re.match(r'[A-Za-z_]\w*$', t):
            if t in RUST_KW or t[0].isupper() or t.startswith('__'):
                out.append(re.escape(t))
            elif t in names:
                out.append('(?P=%s)' % names[t])
            else:
                g = 'n%d' % len(names)
                names[t] = g
                out.append('(?P<%s>[A-Za-z_]\w*)' % g)
        elif t.isspace():
            out.append(r'\s*')
        else:
            out.append(re.escape(t))
    return ''.join(out), names


def fuzzy_locate(text, anchor):
    """identifier-wildcard match of `anchor` in `text` that renames the fewest identifiers (must be the unique best):
    (start, length, {old name: new name}) or None"""
    try:
        rx, names = fuzzy_regex(anchor)
        ms = list(re.finditer(rx, text))
    except re.error:
        return None
    if not ms or not names:
        return None
    scored = []
    for m in ms:
        ren = {old: m.group(g) for old, g in names.items() if m.group(g) != old}
        if any(v in RUST_KW for v in ren.values()):
            continue
        scored.append((len(ren), m.start(), m.end() - m.start(), ren))
    if not scored:
        return None
    scored.sort(key=lambda t: t[0])
    if len(scored) > 1 and scored[1][0] == scored[0][0]:
        return None
    # more than half of the names changed: not a rename of this line
    if scored[0][0] * 2 > len(names) and scored[0][0] > 1:
        return None
    return scored[0][1], scored[0][2], scored[0][3]


def apply_renames(txt, ren):
    """simultaneous, whole-word (not after `.`) renaming of identifiers"""
    if not ren or not txt:
        return txt
    rx = re.compile(r'(?<![\w.])(%s)\b' % '|'.join(re.escape(k) for k in sorted(ren, key=len, reverse=True)))
    return rx.sub(lambda m: ren[m.group(1)], txt)


def rename_spec(spec, ren):
    """carry identifier renames (a local / parameter was renamed in the code) over to every clause and proof aid"""
    if not ren:
        return spec
    r = lambda t: apply_renames(t, ren)
    sec = lambda d: (dict(d, text=r(d['text'])) if d else d)
    return dict(spec, result=ren.get(spec.get('result'), spec.get('result')), requires=[sec(c) for c in spec['requires']], ensures=[sec(c) for c in spec['ensures']],
                decreases=sec(spec['decreases']), entry=sec(spec['entry']), tail=sec(spec['tail']),
                loops={k: sec(v) for k, v in spec['loops'].items()}, closures={k: sec(v) for k, v in spec['closures'].items()},
                ats=[sec(a) for a in spec['ats']])


# A substitution is ESSENTIAL when the expression it replaces is of a kind the verifier accepts with a weaker specification than the real
# meaning or none at all: formatted text, floating point literals and casts, byte-range slicing of text, byte / char iteration.  If the
# anchor of such a substitution is lost (the expression was rewritten), obligations failing in the unit are undecided, never violations.
# (Other substituted calls are rejected outright by rustc / Verus when they reappear unsubstituted, or have real specifications.)
ESSENTIAL_RX = re.compile(r'format!\(|\[\s*\.\.|\.\.\s*[^\]\[]*\]|\bas f64\b|\d\.\d|\.bytes\(\)|\.chars\(\)|\.as_bytes\(\)')

GLOBAL_RULES = [
    # (id, regex, replacement, description)
    ('R1', re.compile(r'\.(map|map_err)\(\s*(([A-Z]\w*)::([A-Z]\w*))\s*\)'),
     lambda m: '.%s(|__v| -> (__o: %s) ensures __o == %s(__v) { %s(__v) })' % (m.group(1), m.group(3), m.group(2), m.group(2))),
    # the prelude constructors Ok / Err / Some used as function values (eta-expansion, as R1)
    ('R1', re.compile(r'(\.(?:map|and_then|map_or|map_or_else|or_else|unwrap_or_else)\((?:[^()]|\([^()]*\))*?,\s*|\.(?:map|and_then)\(\s*)(Ok|Err|Some)\s*\)'),
     lambda m: '%s|__v| %s(__v))' % (m.group(1), m.group(2))),
    ('R2', re.compile(r'\|_\|'), lambda m: '|_e|'),
    # R36: associated constants of `char` that Verus' front end does not know, by their documented literal values
    ('R36', re.compile(r'\b(?:std::)?char::REPLACEMENT_CHARACTER\b'), lambda m: "'\\u{FFFD}'"),
    ('R36', re.compile(r'\b(?:std::)?char::MAX\b'), lambda m: "'\\u{10FFFF}'"),
    ('R5', re.compile(r'\b((?:[A-Za-z_]\w*)(?:\.[A-Za-z_]\w*)*)\.deref\(\)'), lambda m: '(&*%s)' % m.group(1)),
    ('R13', re.compile(r'\bfor _ in\b'), lambda m: 'for _i in'),
    ('R3', re.compile(r'(?m)^([ \t]*)\((\w+), (\w+)\) = ([^;]+);'),
     lambda m: '%s{ let __t = %s; %s = __t.0; %s = __t.1; }' % (m.group(1), m.group(4), m.group(2), m.group(3))),
    ('R9', re.compile(r'let (\w+) = ([\w\.\s]+?)\s*\.iter\(\)\s*\.map\(\|(\w+)\| ([^\n]+?)\)\s*\.collect::<Result<Vec<_>, _>>\(\)\?;'),
     lambda m: 'let %s = { let mut __v = Vec::new(); for %s in %s.iter() {\nlet __e = %s?;\n__v.push(__e);\n} __v };' % (
         m.group(1), m.group(3), re.sub(r'\s+', '', m.group(2)), m.group(4))),
    ('R17', re.compile(r'(?<!truncate\] \()\b([A-Za-z_]\w*) as usize\b'),
     lambda m: '(#[verifier::truncate] (%s as usize))' % m.group(1)),
    ('R20', re.compile(r'(\bcmp_int_float\([^()]*\)) == Some\(Ordering::Equal\)'),
     lambda m: 'matches!(%s, Some(Ordering::Equal))' % m.group(1)),
    ('R6', re.compile(r'Value::Float\(-(\w+)\)'), lambda m: 'Value::Float(__fneg(%s))' % m.group(1)),
    ('R6', re.compile(r'\bVal::Double\(-(\w+)\)'), lambda m: 'Val::Double(__f64_neg(%s))' % m.group(1)),
    ('R15', re.compile(r'Value::Float\((\w+) ([-+*/]) (\w+)\)'),
     lambda m: 'Value::Float(__f%s(%s, %s))' % ({'+': 'add', '-': 'sub', '*': 'mul', '/': 'div'}[m.group(2)], m.group(1), m.group(3))),
]


def apply_global_rules(mt, log, skip=()):
    for rid, rx, rep in GLOBAL_RULES:
        if rid in skip:
            continue
        pos = 0
        while True:
            msk = mask(mt.text)
            m = rx.search(mt.text, pos)
            if not m:
                break
            # do not rewrite inside comments / strings
            if msk[m.start():m.start() + 1].strip() == '' and mt.text[m.start()] not in ' \n\t':
                pos = m.end()
                continue
            new = rep(m)
            log.append((rid, norm(m.group(0)) + '  =>  ' + norm(new)))
            mt.replace(m.start(), m.end(), new)
            pos = m.start() + len(new)


def apply_r8(mt, log):
    """R8: `E.map(|p| { A }).unwrap_or_else(|| { B })`  ==>  `match E { Some(p) => { A } None => { B } }`
    (definition of Option::map / unwrap_or_else; needed when the closures assign a captured local)"""
    while True:
        msk = mask(mt.text)
        m = re.search(r'\.map\(\|(\w+)\|\s*\{', msk)
        if not m:
            return
        found = False
        for m in re.finditer(r'\.map\(\|(\w+)\|\s*\{', msk):
            b1 = m.end() - 1
            e1 = match_close(msk, b1)
            m2 = re.match(r'\)\s*\.unwrap_or_else\(\|\|\s*\{', msk[e1 + 1:])
            if not m2:
                continue
            b2 = e1 + 1 + m2.end() - 1
            e2 = match_close(msk, b2)
            if msk[e2 + 1] != ')':
                continue
            # receiver expression: back from `.map` to the start of the postfix chain (after `=` / `(` / `,` / `{` / `;`)
            k = m.start()
            depth = 0
            while k > 0:
                c = msk[k - 1]
                if c in ')]':
                    depth += 1
                elif c in '([':
                    if depth == 0:
                        break
                    depth -= 1
                elif depth == 0 and c in '=,;{':
                    break
                k -= 1
            recv = mt.text[k:m.start()].strip()
            body1 = mt.text[b1:e1 + 1]
            body2 = mt.text[b2:e2 + 1]
            new = ' match %s { Some(%s) => %s None => %s }' % (re.sub(r'\s+', '', recv), m.group(1), body1, body2)
            mt.replace(k, e2 + 2, new)
            log.append(('R8', 'Option map/unwrap_or_else chain on `%s` => match' % re.sub(r'\s+', '', recv)))
            found = True
            break
        if not found:
            return


def apply_r27(mt, log):
    """R27: `E.iter().skip(N).try_fold(INIT, |A, X| BODY)`  ==>  an indexed loop running BODY once per element from index N, stopping at
    the first `Err` (definition of Iterator::skip / try_fold for the Result residual; BODY is kept verbatim)"""
    while True:
        msk = mask(mt.text)
        m = re.search(r'\.iter\(\)\s*\.skip\((\d+)\)\s*\.(try_fold|fold)\(', msk)
        if not m:
            return
        plain_fold = m.group(2) == 'fold'
        open_p = m.end() - 1
        close_p = match_close(msk, open_p)
        # receiver: back from `.iter` over a postfix chain  (ident | ident(..) | ident[..]) ('.' ...)*
        k = m.start()
        while True:
            j = k
            while j > 0 and msk[j - 1].isspace():
                j -= 1
            if j > 0 and msk[j - 1] in ')]':
                dpt = 0
                while j > 0:
                    j -= 1
                    if msk[j] in ')]':
                        dpt += 1
                    elif msk[j] in '([':
                        dpt -= 1
                        if dpt == 0:
                            break
            while j > 0 and (msk[j - 1].isalnum() or msk[j - 1] == '_'):
                j -= 1
            k = j
            j2 = j
            while j2 > 0 and msk[j2 - 1].isspace():
                j2 -= 1
            if j2 > 0 and msk[j2 - 1] == '.':
                k = j2 - 1
                continue
            break
        recv = re.sub(r'\s+', '', mt.text[k:m.start()])
        inner = mt.text[open_p + 1:close_p]
        imsk = msk[open_p + 1:close_p]
        # INIT: up to the first top-level comma
        d = 0
        cpos = None
        for i_, ch in enumerate(imsk):
            if ch in '([{':
                d += 1
            elif ch in ')]}':
                d -= 1
            elif ch == ',' and d == 0:
                cpos = i_
                break
        if cpos is None:
            return
        init = inner[:cpos].strip()
        rest = inner[cpos + 1:]
        cm = re.match(r'\s*\|\s*(\w+)\s*,\s*(\w+)\s*\|', rest)
        if not cm:
            return
        body = rest[cm.end():].strip().rstrip(',').strip()
        a_, x_, n_ = cm.group(1), cm.group(2), m.group(1)
        if plain_fold:
            # Iterator::fold: the same loop without the error channel (same variable names, so the proof aids of the try_fold form still anchor)
            new = (' { let mut __acc = %s; let mut __i: usize = %s; let mut __err: Option<ExecutionError> = None;\n'
                   'while __i < %s.len() && __err.is_none() {\n'
                   'let %s = &%s[__i]; let %s = __acc;\n'
                   '__acc = %s;\n'
                   '__i = __i + 1;\n'
                   '}\n'
                   '__acc }') % (init, n_, recv, x_, recv, a_, body)
            mt.replace(k, close_p + 1, new)
            log.append(('R27', '%s.iter().skip(%s).fold(..) => indexed loop over the same closure body' % (recv, n_)))
            continue
        new = (' { let mut __acc = %s; let mut __i: usize = %s; let mut __err = None;\n'
               'while __i < %s.len() && __err.is_none() {\n'
               'let %s = &%s[__i]; let %s = __acc;\n'
               'match %s { Ok(__v) => { __acc = __v; } Err(__e) => { __err = Some(__e); } }\n'
               '__i = __i + 1;\n'
               '}\n'
               'match __err { Some(__e) => Err(__e), None => Ok(__acc) } }') % (init, n_, recv, x_, recv, a_, body)
        mt.replace(k, close_p + 1, new)
        log.append(('R27', '%s.iter().skip(%s).try_fold(..) => indexed loop over the same closure body' % (recv, n_)))


def _split_top(text, msk, sep=','):
    """split `text` at top-level separators (brackets balanced on the masked copy)"""
    parts, d, cur = [], 0, 0
    for i_, ch in enumerate(msk):
        if ch in '([{':
            d += 1
        elif ch in ')]}':
            d -= 1
        elif ch == sep and d == 0:
            parts.append(text[cur:i_])
            cur = i_ + 1
    parts.append(text[cur:])
    return [p_ for p_ in (x.strip() for x in parts) if p_]


def apply_r29(mt, log):
    """R29: nom parser combinators over `&str`, replaced by their documented definitions (nom 7, `complete` flavour).  The structure of the
    real code is kept: order of alternatives, tag texts, result constructors, the parser applied by opt / many1.
      alt((map(tag("S")|char('C'), |_| R), ..))(X)  ==>  first alternative whose tag is a prefix of X wins: Ok((rest, R)); none: Err(Error)
      char('C')(X)                                    ==>  nom::__char_p(X, 'C')
      opt(F)(X)                                       ==>  nom::__opt(F(X), X)      (an Err::Error of F becomes Ok((X, None)))
      many1(F)(X)                                     ==>  loop applying F until it fails recoverably; at least one success
      E.iter().fold(INIT, |a, x| BODY)                ==>  indexed loop running BODY once per element
      E.map(|(a, b)| BODY)                            ==>  match E { Ok((a, b)) => Ok(BODY), Err(e) => Err(e) }"""
    # alt of mapped tags
    while True:
        msk = mask(mt.text)
        m = re.search(r'\balt\(\(', msk)
        if not m:
            break
        o1 = m.end() - 2
        c1 = match_close(msk, o1)
        am = re.match(r'\((\w+)\)', msk[c1 + 1:])
        if not am:
            break
        inner_o = o1 + 1
        inner_c = match_close(msk, inner_o)
        elems = [re.sub(r'(?m)^\s*//[^\n]*\n', '', e_).strip() for e_ in _split_top(mt.text[inner_o + 1:inner_c], msk[inner_o + 1:inner_c])]
        arms = []
        ok = True
        for e_ in elems:
            em = re.match(r'map\(\s*(tag\(("(?:[^"\\]|\\.)*")\)|char\((\'(?:[^\'\\]|\\.)\')\))\s*,\s*\|_\|\s*(.+)\)\s*$', e_, re.S)
            if not em:
                ok = False
                break
            if em.group(2):
                arms.append('if let Some(__r) = nom::__tag(__in, %s) { Ok((__r, %s)) }' % (em.group(2), em.group(4).strip()))
            else:
                arms.append('if let Some(__r) = nom::__char(__in, %s) { Ok((__r, %s)) }' % (em.group(3), em.group(4).strip()))
        if not ok:
            break
        new = '{ let __in = %s;\n%s\nelse { Err(nom::__error(__in)) } }' % (am.group(1), '\nelse '.join(arms))
        mt.replace(m.start(), c1 + 1 + am.end(), new)
        log.append(('R29', 'alt((map(tag|char, ..) x%d))(%s) => first matching prefix wins' % (len(arms), am.group(1))))
    for rx, rep, what in ((r"\bchar\(('(?:[^'\\]|\\.)')\)\((\w+)\)", r'nom::__char_p(\2, \1)', "char('c')(i)"),
                          (r'\bone_of\(("(?:[^"\\]|\\.)*")\)\((\w+)\)', r'nom::__one_of(\2, \1)', 'one_of("..")(i)'),
                          (r'\bopt\((\w+)\)\((\w+)\)', r'nom::__opt(\1(\2), \2)', 'opt(f)(i)')):
        n_ = len(re.findall(rx, mt.text))
        if n_:
            pos_ = 0
            while True:
                m_ = re.compile(rx).search(mt.text, pos_)
                if not m_:
                    break
                new_ = m_.expand(rep)
                mt.replace(m_.start(), m_.end(), new_)
                pos_ = m_.start() + len(new_)
            log.append(('R29', '%s => definition (x%d)' % (what, n_)))
    # many1(F)(X)
    while True:
        m = re.search(r'\bmany1\((\w+)\)\((\w+)\)', mt.text)
        if not m:
            break
        f_, x_ = m.group(1), m.group(2)
        new = ('{ let mut __many: Vec<_> = Vec::new(); let mut __in = %s; let mut __fail = None; let mut __go = true;\n'
               'while __go {\n'
               'match %s(__in) {\n'
               'Ok((__r, __o)) => {\nif nom::__same_len(__r, __in) {\n__fail = Some(nom::__error(__in)); __go = false;\n} else {\n__many.push(__o);\n__in = __r;\n}\n}\n'
               'Err(__e) => {\nif __many.len() == 0 || !nom::__recoverable(&__e) { __fail = Some(__e); }\n__go = false;\n}\n'
               '}\n'
               '}\n'
               'match __fail { Some(__e) => Err(__e), None => Ok((__in, __many)) } }') % (x_, f_)
        mt.replace(m.start(), m.end(), new)
        log.append(('R29', 'many1(%s)(%s) => loop: apply until a recoverable error, at least once, no progress is an error' % (f_, x_)))
    # E.iter().fold(INIT, |a, x| BODY)
    while True:
        msk = mask(mt.text)
        m = re.search(r'(\b\w+)\.iter\(\)\s*\.fold\(', msk)
        if not m:
            break
        o = m.end() - 1
        c = match_close(msk, o)
        parts = _split_top(mt.text[o + 1:c], msk[o + 1:c])
        parts = [parts[0], ', '.join(parts[1:])] if len(parts) >= 2 else parts
        cm = re.match(r'\|\s*(\w+)\s*,\s*(\w+)\s*\|\s*(.+)$', parts[1], re.S) if len(parts) == 2 else None
        if not cm:
            break
        new = ('{ let mut __facc = %s; let mut __fi: usize = 0;\nwhile __fi < %s.len() {\nlet %s = &%s[__fi]; let %s = __facc;\n__facc = %s;\n__fi = __fi + 1;\n}\n__facc }'
               % (parts[0], m.group(1), cm.group(2), m.group(1), cm.group(1), cm.group(3).strip()))
        mt.replace(m.start(), c + 1, new)
        log.append(('R29', '%s.iter().fold(..) => indexed loop over the same closure body' % m.group(1)))
    # E.map(|(a, b)| BODY) on a Result (tuple-pattern closure)
    while True:
        msk = mask(mt.text)
        m = re.search(r'\.map\(\|\((\w+), (\w+)\)\|', msk)
        if not m:
            break
        o = msk.find('(', m.start())
        c = match_close(msk, o)
        body = mt.text[m.end():c].strip()
        # receiver: the block / call expression right before `.map`
        k = m.start()
        j = k
        while j > 0 and msk[j - 1].isspace():
            j -= 1
        if j > 0 and msk[j - 1] in ')}':
            dpt = 0
            while j > 0:
                j -= 1
                if msk[j] in ')}':
                    dpt += 1
                elif msk[j] in '({':
                    dpt -= 1
                    if dpt == 0:
                        break
            while j > 0 and (msk[j - 1].isalnum() or msk[j - 1] in '_:'):
                j -= 1
        else:
            break
        recv = mt.text[j:k]
        new = 'match %s { Ok((%s, %s)) => Ok(%s), Err(__e) => Err(__e) }' % (recv.strip(), m.group(1), m.group(2), body)
        mt.replace(j, c + 1, new)
        log.append(('R29', 'Result::map with a tuple-pattern closure => match'))


def apply_r33(mt, log):
    """R33: a match arm `P1 | P2 if G => E` (binding-free patterns: paths / literals) ==> `P1 if G => E, P2 if G => E`
    (definition of or-patterns; Verus does not take an or-pattern together with a guard)"""
    pat = r'(?:[A-Za-z_][\w:]*|"(?:[^"\\]|\\.)*")'
    rx = re.compile(r'(?m)^([ \t]*)(%s(?:\s*\|\s*%s)+)\s+if\s+' % (pat, pat))
    pos = 0
    while True:
        m = rx.search(mt.text, pos)
        if not m:
            return
        msk = mask(mt.text)
        arrow = msk.find('=>', m.end())
        if arrow < 0:
            return
        guard = mt.text[m.end():arrow].strip()
        j = arrow + 2
        while j < len(msk) and msk[j].isspace():
            j += 1
        if j < len(msk) and msk[j] == '{':
            e = match_close(msk, j) + 1
            if e < len(msk) and msk[e] == ',':
                e += 1
        else:
            d = 0
            e = j
            while e < len(msk):
                c = msk[e]
                if c in '([{':
                    d += 1
                elif c in ')]}':
                    if d == 0:
                        break
                    d -= 1
                elif c == ',' and d == 0:
                    e += 1
                    break
                e += 1
        body = mt.text[j:e].rstrip().rstrip(',')
        alts = [a.strip() for a in re.split(r'\s*\|\s*', m.group(2))]
        new = '\n'.join('%s%s if %s => %s,' % (m.group(1), a, guard, body) for a in alts)
        mt.replace(m.start(), e, new)
        log.append(('R33', 'or-pattern with guard split into %d arms: %s' % (len(alts), ' | '.join(alts))))
        pos = m.start() + len(new)


def name_result(sig, binder):
    """`-> T` ==> `-> (binder: T)` in a fn signature (text up to, not including, the body `{`)."""
    msk = mask(sig)
    # find params: first `(` after `fn name<...>`
    m = re.search(r'\bfn\s+\w+', msk)
    i = m.end()
    depth = 0
    while i < len(msk):
        if msk[i] == '<':
            depth += 1
        elif msk[i] == '>' and msk[i - 1] != '-':
            depth -= 1
        elif msk[i] == '(' and depth == 0:
            break
        i += 1
    close = match_close(msk, i)
    arrow = re.match(r'\s*->\s*', msk[close + 1:])
    if not arrow:
        return sig, False
    ts = close + 1 + arrow.end()
    w = re.search(r'\bwhere\b', msk[ts:])
    te = ts + w.start() if w else len(sig)
    ty = sig[ts:te].rstrip()
    tail = sig[ts + len(ty):]
    return sig[:ts] + '(%s: %s)' % (binder, ty) + tail, True


class Woven:
    def __init__(self, group):
        self.group = group
        self.lines = []          # output lines
        self.srcmap = {}         # out line no (1-based) -> [file, line]
        self.labels = []         # dict(label, kind, unit, line_start, line_end)
        self.units = []          # dict(unit, mode, file, item, sha256, src_line, line_start, line_end, rules, ...)
        self.items = []
        self.assumed_units = []
        self.uncontracted = []   # methods of impl blocks declared complete that have no contract
        self.complete_checks = []

    def emit(self, text, src=None, origin=None):
        """text may be multi-line. origin: list of src line numbers per line (or None)."""
        ls = text.split('\n')
        for k, l in enumerate(ls):
            self.lines.append(l)
            if src and origin and origin[k] is not None:
                self.srcmap[len(self.lines)] = [src, origin[k]]
        return len(self.lines)

    @property
    def lineno(self):
        return len(self.lines)


def parse_source_path(s):
    parts = [p.strip() for p in s.split('::')]
    # re-join segments that were split inside an impl header (e.g. `impl ops::Add<Value> for Value`)
    file = parts[0]
    segs = []
    cur = None
    for p in parts[1:]:
        if cur is not None:
            if re.match(r'(fn|struct|enum|const|static|mod|trait|type)\s+\w+$', p) or p.startswith('impl'):
                segs.append(cur)
                cur = None
            else:
                cur += '::' + p
                continue
        if p.startswith('impl'):
            cur = p
        else:
            segs.append(p)
    if cur is not None:
        segs.append(cur)
    return file, segs


def macro_instances(macro_src, macro_name, invoc_src):
    """Mechanical expansion of a simple `macro_rules!` with ONE rule of the shape
         ($($a:ty => $b:path),* $(,)?) => { $( ITEMS )* }
    for every invocation `name!( x => y, ... );` found in invoc_src.  Returns (items_text, first_line_of_items, [(a, b), ...]).
    Only textual substitution of the two metavariables, `$crate` and `stringify!($a)` is performed."""
    msk = mask(macro_src)
    m = re.search(r'macro_rules!\s+' + re.escape(macro_name) + r'\s*\{', msk)
    if not m:
        raise SliceError('macro %s not found' % macro_name)
    body_open = m.end() - 1
    body_close = match_close(msk, body_open)
    body = macro_src[body_open + 1:body_close]
    bm = mask(body)
    arrow = bm.find('=>', bm.find(')'))
    # the rule's pattern is the first parenthesised group; its metavariables:
    pat_open = bm.find('(')
    pat_close = match_close(bm, pat_open)
    metas = re.findall(r'\$(\w+):\w+', body[pat_open:pat_close])
    if len(metas) != 2:
        raise SliceError('macro %s: unsupported rule shape (metavariables %r)' % (macro_name, metas))
    exp_open = bm.find('{', pat_close)
    exp_close = match_close(bm, exp_open)
    rep = re.search(r'\$\(', bm[exp_open:exp_close])
    if not rep:
        raise SliceError('macro %s: no repetition in expansion' % macro_name)
    r_open = exp_open + rep.end() - 1
    r_close = match_close(bm, r_open)
    items = body[r_open + 1:r_close]
    first_line = macro_src.count('\n', 0, body_open + 1 + r_open + 1) + 1
    pairs = []
    im = mask(invoc_src)
    for iv in re.finditer(r'\b' + re.escape(macro_name) + r'!\s*\(', im):
        o = iv.end() - 1
        c = match_close(im, o)
        inner = invoc_src[o + 1:c]
        depth = 0
        cur = ''
        parts = []
        prev = ''
        for ch in inner:
            if ch in '<([':
                depth += 1
            elif ch in ')]' or (ch == '>' and prev != '='):
                depth -= 1
            prev = ch
            if ch == ',' and depth == 0:
                parts.append(cur)
                cur = ''
            else:
                cur += ch
        parts.append(cur)
        for pt in parts:
            if '=>' in pt:
                a, b = pt.split('=>', 1)
                pairs.append((norm(a), norm(b)))
    return items, first_line, metas, pairs


def instantiate(items, metas, pair):
    t = items
    t = t.replace('stringify!($%s)' % metas[0], '"%s"' % pair[0])
    t = t.replace('$' + metas[0], pair[0]).replace('$' + metas[1], pair[1]).replace('$crate::', 'crate::')
    return t


def handler_instances(macro_src, macro_name, invoc_src):
    """Mechanical expansion of the adapter closures of `impl_handler!`: the macro has ONE rule `($($t:ty),*) => { paste::paste! { .. } }` whose
    items contain `fn into_function(self) -> Function { Box::new(move |_ftx| { BODY }) }`.  For every invocation `impl_handler!(C1, .., Cn);`
    and every such closure, BODY is instantiated textually: `$( .. )*` repetitions over the type list, `$t` -> Ci,
    `[<arg_ $t:lower>]` -> arg_ci (what paste does), and the captured `self` is named `this`.
    Returns [(types, variant, body_text, first_line_of_body_in_macro_file)]."""
    msk = mask(macro_src)
    m = re.search(r'macro_rules!\s+' + re.escape(macro_name) + r'\s*\{', msk)
    if not m:
        raise SliceError('macro %s not found' % macro_name)
    b0 = m.end() - 1
    b1 = match_close(msk, b0)
    closures = []
    for cm in re.finditer(r'Box::new\(move \|_ftx\|\s*\{', msk[b0:b1]):
        o = b0 + cm.end() - 1
        c = match_close(msk, o)
        closures.append((macro_src[o + 1:c], macro_src.count('\n', 0, o + 1) + 1))
    if not closures:
        raise SliceError('macro %s: no adapter closure found' % macro_name)
    invs = []
    im = mask(invoc_src)
    for iv in re.finditer(r'(?m)^\s*' + re.escape(macro_name) + r'!\s*\(([^)]*)\)\s*;', im):
        invs.append([t.strip() for t in iv.group(1).split(',') if t.strip()])
    out = []
    for types in invs:
        for body, line in closures:
            t = body
            while True:
                bm = mask(t)
                r = bm.find('$(')
                if r < 0:
                    break
                rc = match_close(bm, r + 1)
                if t[rc + 1:rc + 2] != '*':
                    raise SliceError('macro %s: unsupported repetition' % macro_name)
                inner = t[r + 2:rc]
                rep = ''.join(inner.replace('[<arg_ $t:lower>]', 'arg_' + ty.lower()).replace('$t', ty) for ty in types)
                t = t[:r] + rep + t[rc + 2:]
            variant = 'ctx' if re.search(r'\bself\(\s*_ftx\b', t) else 'plain'
            t = re.sub(r'\bself\(', 'this(', t)
            out.append((types, variant, t, line))
    return out


def handler_contract(types, variant):
    """the contract of one adapter, written once for every arity: the extractors of the declared parameter types run in declaration order,
    each on the context the previous one left; the first failing extractor's error is the result and the host function is not consulted;
    otherwise the host function is invoked with exactly the extracted data and its result converted"""
    n = len(types)
    def step(i, ctx, args):
        if i == n:
            tup = '(' + ''.join(a + ', ' for a in ((['&' + ctx] if variant == 'ctx' else []) + args)) + ')'
            return '(exists|r: R| #[trigger] this.ensures(%s, r) && res == r.irr_spec()) && *final(_ftx) == %s' % (tup, ctx)
        return ('match %s::fc_spec(%s) { (Err(e), c) => res == Err::<Value, ExecutionError>(e) && *final(_ftx) == c, (Ok(a%d), c%d) => %s }'
                % (types[i], ctx, i + 1, i + 1, step(i + 1, 'c%d' % (i + 1), args + ['a%d' % (i + 1)])))
    if variant == 'ctx':
        req = 'forall|c: &FunctionContext, %s| #[trigger] this.requires((c, %s))' % (', '.join('a%d: %s' % (k + 1, t) for k, t in enumerate(types)) or 'u: ()', ''.join('a%d, ' % (k + 1) for k in range(n)))
        if n == 0:
            req = 'forall|c: &FunctionContext| #[trigger] this.requires((c,))'
    else:
        req = ('forall|%s| #[trigger] this.requires((%s))' % (', '.join('a%d: %s' % (k + 1, t) for k, t in enumerate(types)), ''.join('a%d, ' % (k + 1) for k in range(n)))) if n else 'this.requires(())'
    return req, step(0, '*old(_ftx)', [])


class Weaver:
    def __init__(self, repo, verif=VERIF):
        self.repo = repo
        self.verif = verif
        self.sources = {}

    def src(self, rel):
        if rel not in self.sources:
            p = os.path.join(self.repo, rel)
            if not os.path.exists(p):
                raise SliceError('source file missing: %s' % rel)
            self.sources[rel] = Source(rel, open(p).read())
        return self.sources[rel]

    # ---------------------------------------------------------------------------------------
    def weave(self, group, extras=(), bare=(), drop_aids=None, nodecr=()):
        self.extras = list(extras)
        self.nodecr = set(nodecr)
        self.bare = set(bare)
        self.drop_aids = drop_aids or {}
        w = Woven(group)
        self._template(os.path.join(self.verif, 'groups', group + '.rs'), w)
        # Verus allows one module-level `broadcast use` per module: the one of prelude/std_str.rs is merged into the group's own
        # (line count unchanged, the source map stays valid)
        mine = [i for i, l in enumerate(w.lines) if l.startswith('broadcast use axs::group_str_patterns;')]
        other = [i for i, l in enumerate(w.lines) if l.startswith('broadcast use') and i not in mine]
        if mine and other:
            w.lines[mine[0]] = '// (merged into the `broadcast use` below)'
            l = w.lines[other[0]]
            if l.startswith('broadcast use {'):
                w.lines[other[0]] = 'broadcast use {axs::group_str_patterns, ' + l[len('broadcast use {'):]
            else:
                w.lines[other[0]] = 'broadcast use {axs::group_str_patterns, ' + l[len('broadcast use'):].strip().rstrip(';') + '};'
        for file, segs, fns in w.complete_checks:
            have = set(u['fn'] for u in w.units if u['file'] == file and [x.strip() for x in u['item'].split(' :: ')][:-1] == [x.strip() for x in segs])
            for n2, ln in fns:
                if n2 not in have:
                    w.uncontracted.append('%s:%d: fn %s of `%s` has no contract' % (file, ln, n2, ' :: '.join(segs)))
        return w

    def _template(self, path, w):
        for raw in open(path).read().split('\n'):
            s = raw.strip()
            if s.startswith('//@include '):
                self._template(os.path.join(self.verif, s[len('//@include '):].strip()), w)
            elif s.startswith('//@item '):
                self._item(s[len('//@item '):].strip(), w)
            elif s == '//@extras':
                # helper functions that the code under contract calls but that have no contract file: extracted verbatim,
                # verified without a postcondition (callers learn nothing about their result)
                for k, (file, segs) in enumerate(getattr(self, 'extras', [])):
                    self._unit(None, 'verify', w, auto=(file, segs, k))
            elif s.startswith('//@consts '):
                self._consts(s[len('//@consts '):].strip(), w)
            elif s.startswith('//@verify-handlers '):
                self._handler_units(s[len('//@verify-handlers '):].strip(), w)
            elif s.startswith('//@verify-macro '):
                self._macro_units(s[len('//@verify-macro '):].strip(), w)
            elif s.startswith('//@verify-if-present '):
                # a contract for a function the code need not have (e.g. a serde method with a provided default): woven only
                # when the function exists, so that ADDING it with a wrong body fails its contract instead of escaping it
                u_ = s[len('//@verify-if-present '):].strip()
                sp_ = parse_vspec(os.path.join(self.verif, 'contracts', u_ + '.vspec'))
                f_, sg_ = parse_source_path(sp_['source'])
                try:
                    self.src(f_).find(sg_)
                except SliceError:
                    w.items.append(dict(item='optional unit %s: function absent from the source, contract not woven' % u_, file=f_, src_line=0, sha256='', rules=[], line_start=w.lineno, line_end=w.lineno))
                    continue
                self._unit(u_, 'verify', w)
            elif s.startswith('//@complete '):
                # every fn of this impl block must be a unit of the group; a method without contract is reported (undecided)
                self._complete(s[len('//@complete '):].strip(), w)
            elif s.startswith('//@verify '):
                try:
                    self._unit(s[len('//@verify '):].strip(), 'verify', w)
                except SliceError as e:
                    if 'matches 0 items' not in str(e):
                        raise
                    # the function under contract is gone (renamed / removed / inlined): that unit is undecided, the others are still verified
                    w.uncontracted.append('unit %s: %s' % (s[len('//@verify '):].strip(), e))
            elif s.startswith('//@assume '):
                self._unit(s[len('//@assume '):].strip(), 'assume', w)
            elif s.startswith('//@'):
                raise SliceError('%s: unknown directive %s' % (path, s))
            else:
                w.emit(raw)

    def _complete(self, spec, w):
        file, segs = parse_source_path(spec)
        S = self.src(file)
        try:
            imp = S.find(segs)
        except SliceError as e:
            w.uncontracted.append('%s: impl block not found (%s)' % (spec, e))
            return
        w.complete_checks.append((file, segs, [(n2, S.line_of(s2)) for k2, h2, n2, s2, b2, e2 in S._items(imp['body_open'] + 1, imp['end'] - 1) if k2 == 'fn']))

    def _macro_units(self, unit, w):
        """contract template contracts/<unit>.vspec with `macro <name> in <def file> invoked in <file>`; one woven unit per
        macro invocation pair; `$T` / `$V` in the contract stand for the two metavariables"""
        path = os.path.join(self.verif, 'contracts', unit + '.vspec')
        raw = open(path).read()
        mm = re.search(r'^macro (\w+) in (\S+) invoked in (\S+)\s*$', raw, re.M)
        if not mm:
            raise SliceError('%s: macro line missing' % unit)
        name, deff, invf = mm.groups()
        items, first_line, metas, pairs = macro_instances(self.src(deff).text, name, self.src(invf).text)
        if not pairs:
            raise SliceError('%s: no invocation of %s! found in %s' % (unit, name, invf))
        for k, pair in enumerate(pairs):
            text = instantiate(items, metas, pair)
            syn = '%s#%s!#%d' % (deff, name, k)
            S = Source(syn, text)
            S.line_base = first_line - 1
            self.sources[syn] = S
            inst = raw.replace('$T', pair[0]).replace('$V', pair[1]).replace('$SRC', syn)
            inst = re.sub(r'^macro [^\n]*\n', '', inst, flags=re.M)
            inst = re.sub(r'^unit (\S+)', lambda m_: 'unit %s[%s]' % (m_.group(1), pair[0]), inst, flags=re.M)
            tmp = os.path.join(self.verif, 'build', '.vspec-%s-%d' % (unit, k))
            os.makedirs(os.path.dirname(tmp), exist_ok=True)
            open(tmp, 'w').write(inst)
            self._unit(None, 'verify', w, spec_path=tmp)
            w.units[-1]['macro_instance'] = '%s!(%s => %s) expanded mechanically from %s (invoked in %s)' % (name, pair[0], pair[1], deff, invf)

    def _handler_units(self, spec, w):
        """`//@verify-handlers <macro> in <def file> invoked in <file> props <P..>`: one unit per adapter closure and invocation (R28: the body
        of `Box::new(move |_ftx| { .. })` emitted as a generic function of the captured `self` (named `this`) and the closure parameter)"""
        mm = re.match(r'(\w+) in (\S+) invoked in (\S+) props (.*)$', spec)
        if not mm:
            raise SliceError('bad verify-handlers line: %s' % spec)
        name, deff, invf, props = mm.group(1), mm.group(2), mm.group(3), mm.group(4).split()
        for k, (types, variant, body, line) in enumerate(handler_instances(self.src(deff).text, name, self.src(invf).text)):
            n = len(types)
            fn = 'adapter_%s_%d' % (variant, n)
            gen = ''.join(t + ', ' for t in types)
            fsig = 'Fn(%s%s) -> R' % ('&FunctionContext, ' if variant == 'ctx' else '', ', '.join(types))
            where = 'F: %s, %sR: IntoResolveResult' % (fsig, ''.join('%s: FromContext, ' % t for t in types))
            text = 'pub fn %s<F, %sR>(this: &F, _ftx: &mut FunctionContext) -> ResolveResult where %s {%s}\n' % (fn, gen, where, body)
            syn = '%s#%s!#%s' % (deff, name, fn)
            S = Source(syn, text)
            S.line_base = line - 1
            self.sources[syn] = S
            req, ens = handler_contract(types, variant)
            vs = ['unit handlers.%s' % fn, 'source %s :: fn %s' % (syn, fn), 'props-safety C02', 'props-internal ' + ' '.join(props),
                  'requires [C20.adapter.the_host_function_accepts_any_arguments_of_its_declared_types]\n    ' + req,
                  'ensures [C20.adapter.arguments_are_extracted_in_declaration_order_first_error_wins_then_the_host_function_gets_exactly_them]\n    ' + ens]
            tmp = os.path.join(self.verif, 'build', '.vspec-handlers-%s' % fn)
            os.makedirs(os.path.dirname(tmp), exist_ok=True)
            open(tmp, 'w').write('\n'.join(vs) + '\n')
            self._unit(None, 'verify', w, spec_path=tmp)
            w.units[-1]['macro_instance'] = '%s!(%s): adapter closure (%s FunctionContext) expanded mechanically from %s (invoked in %s); signature synthesized (R28)' % (
                name, ', '.join(types), 'with' if variant == 'ctx' else 'without', deff, invf)
            w.units[-1]['rules'].append(('R28', 'closure body of Box::new(move |_ftx| ..) emitted as fn %s(this: &F, _ftx)' % fn))

    def _consts(self, file, w):
        S = self.src(file)
        n = 0
        for kind, header, name, start, body_open, end in S._items(0, len(S.text)):
            if kind == 'const' and re.search(r':\s*&str\b', header):
                t = re.sub(r'(\bconst\s+\w+\s*:\s*)&str\b', r"\1&'static str", S.slice(start, end))
                if not t.startswith('pub'):
                    t = 'pub ' + t
                w.emit(t, file, [S.line_of(start)])
                n += 1
        if n == 0:
            raise SliceError('%s: no &str consts found' % file)
        w.items.append(dict(item=file + ' :: all &str consts', file=file, src_line=1, sha256=S.sha(0, len(S.text)),
                            rules=[('R7', "const X: &str => &'static str (x%d)" % n)], line_start=w.lineno - n + 1, line_end=w.lineno))

    def _item(self, spec, w):
        opts = set()
        m = re.search(r'\s+\[([a-z ,-]+)\]$', spec)
        if m:
            opts = set(x.strip() for x in m.group(1).split(','))
            spec = spec[:m.start()]
        file, segs = parse_source_path(spec)
        S = self.src(file)
        it = S.find(segs)
        text = S.slice(it['start'], it['end'])
        log = []
        text = strip_attrs(text, log)
        # R7: `const X: &str` -> `const X: &'static str`
        t2 = re.sub(r'(\bconst\s+\w+\s*:\s*)&str\b', r"\1&'static str", text)
        # the same elided lifetime inside a compound const type (`[(&str, &str); 12]`)
        mc = re.match(r'(\s*(?:pub(?:\([a-z]+\))?\s+)?const\s+\w+\s*:)([^=]*)(=)', t2)
        if mc and '&str' in mc.group(2):
            t2 = mc.group(1) + re.sub(r"&str\b", "&'static str", mc.group(2)) + t2[mc.end(2):]
        if t2 != text:
            log.append(('R7', "const X: &str => &'static str"))
            text = t2
        if 'pub' in opts:
            text = re.sub(r'^pub\(crate\)\s+', '', text.lstrip())
            if not text.startswith('pub'):
                text = 'pub ' + text
        if 'pubfields' in opts:
            # visibility only: private fields are opaque to contracts of public functions
            text = re.sub(r'(?m)^(\s+)(?!pub\b)(\w+\s*:)', r'\1pub \2', text)
            log.append(('R12', 'fields made pub (visibility only)'))
        first = S.line_of(it['start'])
        a = w.lineno + 1
        w.emit('// ---- item %s (verbatim from %s:%d, sha256 %s) ----' % (' :: '.join(segs), file, first, S.sha(it['start'], it['end'])[:16]))
        w.emit(text, file, [first + k for k in range(text.count('\n') + 1)])
        w.items.append(dict(item=spec, file=file, src_line=first, sha256=S.sha(it['start'], it['end']),
                            rules=log, line_start=a, line_end=w.lineno))

    # ---------------------------------------------------------------------------------------
    def _unit(self, unit, mode, w, auto=None, spec_path=None):
        if spec_path:
            spec = parse_vspec(spec_path)
            unit = spec['unit']
        elif auto:
            file, segs, k = auto
            unit = 'auto.%s' % segs[-1].split()[-1]
            spec = dict(unit=unit, source=file + ' :: ' + ' :: '.join(segs), props_safety=['C02'], props_internal=[], result='res', attrs=['#[verifier::exec_allows_no_decreases_clause]'],
                        requires=[], ensures=[], decreases=None, entry=None, loops={}, closures={}, ats=[], subs=[], subres=[], sigsubs=[], path=None, decls=[],
                        notes=['auto-extracted helper without contract'], implextra=[], aftereach=[], regions=[], tail=None, tailbind=None, implas=None)
        else:
            spec = parse_vspec(os.path.join(self.verif, 'contracts', unit + '.vspec'))
        if unit in getattr(self, 'nodecr', ()) and mode == 'verify':
            # the changed code has a loop without a decreases clause: termination of this unit is not checked (the unit is undecided),
            # so that the other units of the group are still verified
            spec = dict(spec, attrs=list(spec['attrs']) + ['#[verifier::exec_allows_no_decreases_clause]'],
                        notes=list(spec['notes']) + ['loop without decreases clause: termination not checked'])
        if unit in getattr(self, 'bare', ()) and mode == 'verify':
            # a proof aid of this unit no longer type-checks against the changed code: keep the contract, drop every aid
            spec = dict(spec, loops={}, closures={}, ats=[], tail=None, tailbind=None,
                        attrs=list(spec['attrs']) + ['#[verifier::exec_allows_no_decreases_clause]'],
                        notes=list(spec['notes']) + ['proof aids dropped: they no longer type-check against the changed code'])
        file, segs = parse_source_path(spec['source'])
        S = self.src(file)
        it = S.find(segs)
        if it['kind'] != 'fn' or it['body_open'] is None:
            raise SliceError('%s: source is not a fn with a body' % unit)
        log = []
        # declaration anchors (`decl "<line>"`: the line that introduces a name the contract or its proof aids mention): when such a
        # line is no longer present verbatim but matches up to consistently renamed identifiers, the renames are carried over
        pre_renames = {}
        fulltext = S.slice(it['start'], it['end'])
        nfull = norm(fulltext)
        for d in spec.get('decls', []):
            if norm(d) not in nfull:
                fz = fuzzy_locate(fulltext, d)
                if fz:
                    for k_, v_ in fz[2].items():
                        if pre_renames.get(k_, v_) == v_:
                            pre_renames[k_] = v_
        if pre_renames:
            log.append(('fuzzy', 'declarations renamed in the code, carried over to the contract and its proof aids: %s' % ', '.join('%s -> %s' % kv for kv in sorted(pre_renames.items()))))
            spec = rename_spec(spec, pre_renames)
        sig = S.slice(it['start'], it['body_open']).rstrip()
        for rid, old, new in spec['sigsubs']:
            if old not in sig:
                raise SliceError('%s: signature anchor lost: %r' % (unit, old))
            sig = sig.replace(old, new)
            log.append((rid, 'signature: %s => %s' % (old, new)))
        r4 = bool(re.search(r'\(\s*mut\s+self\b', sig))
        if r4:
            sig = re.sub(r'\(\s*mut\s+self\b', '(self', sig, count=1)
            log.append(('R4', 'fn f(mut self, ..) => fn f(self, ..) { let mut this = self; .. } with self -> this in the body'))
        sig, named = name_result(sig, spec['result'])
        sig_first = S.line_of(it['start'])

        # enclosing impl, if any
        impl_open = impl_extra = None
        if len(segs) > 1 and segs[-2].startswith('impl'):
            imp = S.find_enclosing(segs)
            hdr = S.slice(imp['start'], imp['body_open']).rstrip()
            impl_open = hdr + ' {'
            if ' for ' in norm(hdr):
                # trait impl: keep the associated non-fn items (type Output = ...;)
                extra = []
                for k2, h2, n2, s2, b2, e2 in S._items(imp['body_open'] + 1, imp['end'] - 1):
                    if k2 in ('type', 'const'):
                        extra.append(S.slice(s2, e2))
                impl_extra = '\n'.join('    ' + e for e in extra)
        if spec['implas']:
            # trait-impl method of a generated trait emitted as an inherent fn of a stand-in type (stated in the evidence)
            impl_open = spec['implas'] + ' {'
            impl_extra = None
            log.append(('R22', 'method of `%s` emitted as inherent fn: %s' % (segs[-2] if len(segs) > 1 else '?', spec['implas'])))
        unit_start = w.lineno + 1
        w.emit('// ---- unit %s [%s] from %s:%d sha256 %s ----' % (unit, mode, file, sig_first, S.sha(it['start'], it['end'])[:16]))
        if impl_open:
            w.emit(impl_open)
            if impl_extra:
                w.emit(impl_extra)
            for ie in spec['implextra']:
                w.emit('    ' + ie['text'].strip())
        for a in spec['attrs']:
            w.emit('    ' + a)
        if mode == 'assume':
            w.emit('    #[verifier::external_body]')
        w.emit(sig, file, [sig_first + k for k in range(sig.count('\n') + 1)])

        def clauses(kind):
            cl = spec[kind]
            if not cl:
                return
            w.emit('        ' + kind)
            for c in cl:
                a = w.lineno + 1
                w.emit('            ' + c['text'].strip() + ',' + ('   // [%s]' % c['label'] if c['label'] else ''))
                w.labels.append(dict(label=c['label'], kind=kind, unit=unit, line_start=a, line_end=w.lineno,
                                     text=norm(c['text'])))
        clauses('requires')
        clauses('ensures')
        if spec['decreases'] and mode == 'verify':
            w.emit('        decreases ' + spec['decreases']['text'].strip())
        if mode == 'assume':
            w.emit('    { unimplemented!() }')
            if impl_open:
                w.emit('}')
            w.units.append(dict(unit=unit, mode=mode, file=file, item=' :: '.join(segs), src_line=sig_first,
                                sha256=S.sha(it['start'], it['end']), line_start=unit_start, line_end=w.lineno,
                                rules=[], props_safety=[], props_internal=[], fn=it['name']))
            return

        # ---- body -------------------------------------------------------------------------
        body = S.slice(it['body_open'] + 1, it['end'] - 1)
        mt = MappedText(body, S.line_of(it['body_open'] + 1))
        if r4:
            pos = 0
            while True:
                msk_ = mask(mt.text)
                m_ = re.compile(r'\bself\b').search(msk_, pos)
                if not m_:
                    break
                mt.replace(m_.start(), m_.end(), 'this')
                pos = m_.start() + 4
        # strip cfg/doc attributes inside the body, keeping line structure
        pos = 0
        while True:
            m = STRIP_ATTR.search(mt.text, pos)
            if not m:
                break
            t = m.group(0).strip()
            if not t.startswith('///'):
                log.append(('R12', t))
            mt.replace(m.start(), m.end(), '')
            pos = m.start()
        lost = []     # anchors that no longer resolve: the woven text is skipped (a proof aid is missing, never a verdict)
        lost_essential = []
        sub_renames = dict(pre_renames)
        # declared substitutions first (exact text, must match)
        for rid, old, new in spec['subs']:
            if isinstance(old, tuple):
                rx = re.compile(r'\s*'.join(re.escape(tok) for tok in old[1].split()))
                ms = list(rx.finditer(mt.text))
                if not ms:
                    fz = fuzzy_locate(mt.text, old[1])
                    if fz:
                        sub_renames.update(fz[2])
                        new_ = apply_renames(new, fz[2])
                        log.append((rid, '%s  =>  %s  (x1, identifiers renamed: %s)' % (norm(mt.text[fz[0]:fz[0] + fz[1]]), norm(new_), ', '.join('%s -> %s' % kv for kv in sorted(fz[2].items())))))
                        mt.replace(fz[0], fz[0] + fz[1], new_)
                        continue
                    log.append((rid, 'ANCHOR LOST: %s' % norm(old[1])))
                    if rid.endswith('!') or ESSENTIAL_RX.search(old[1]):
                        lost_essential.append((rid, old[1]))
                    continue
                for m_ in reversed(ms):
                    mt.replace(m_.start(), m_.end(), new)
                log.append((rid, '%s  =>  %s  (x%d)' % (norm(old[1]), norm(new), len(ms))))
                continue
            cnt = mt.text.count(old)
            if cnt == 0 and pre_renames:
                # the declarations were renamed consistently (decl anchors): the substituted expression is looked up under the new names
                old_r = apply_renames(old, pre_renames)
                if old_r != old and mt.text.count(old_r) > 0:
                    new = apply_renames(new, pre_renames)
                    log.append((rid, 'pattern carried over the renamed declarations: %s' % norm(old_r)))
                    old = old_r
                    cnt = mt.text.count(old)
            if cnt == 0:
                fz = fuzzy_locate(mt.text, old)
                if fz:
                    # the substituted expression mentions a renamed local: same rule, names carried over
                    sub_renames.update(fz[2])
                    new_ = apply_renames(new, fz[2])
                    log.append((rid, '%s  =>  %s  (x1, identifiers renamed: %s)' % (norm(mt.text[fz[0]:fz[0] + fz[1]]), norm(new_), ', '.join('%s -> %s' % kv for kv in sorted(fz[2].items())))))
                    mt.replace(fz[0], fz[0] + fz[1], new_)
                    continue
                log.append((rid, 'ANCHOR LOST: %s' % norm(old)))
                # `format!` is accepted by Verus with an unspecified result: a lost substitution of a formatted text is essential as well
                if rid.endswith('!') or ESSENTIAL_RX.search(old):
                    lost_essential.append((rid, old))
                continue
            pos = 0
            while True:
                i = mt.text.find(old, pos)
                if i < 0:
                    break
                mt.replace(i, i + len(old), new)
                pos = i + len(new)
            log.append((rid, '%s  =>  %s  (x%d)' % (norm(old), norm(new), cnt)))
        for rid, rx_, rep_ in spec.get('subres', []):
            n_ = len(re.findall(rx_, mt.text))
            if n_ == 0:
                log.append((rid, 'ANCHOR LOST: /%s/' % rx_))
                continue
            pos_ = 0
            while True:
                m_ = re.compile(rx_).search(mt.text, pos_)
                if not m_:
                    break
                new_ = m_.expand(rep_)
                mt.replace(m_.start(), m_.end(), new_)
                pos_ = m_.start() + len(new_)
            log.append((rid, '/%s/  =>  %s  (x%d)' % (rx_, rep_, n_)))
        # an essential substitution whose source text is gone compromises the unit only if a construct of that kind is still there (the
        # expression was REWRITTEN); when the construct was removed altogether nothing under-specified is left
        for rid_, old_ in lost_essential:
            # declared essential (`sub!`): always; recognised by its kind: only while some construct of an under-specified kind is still in the body
            if rid_.endswith('!') or ESSENTIAL_RX.search(mt.text):
                lost.append('essential substitution %r (what replaces it may be accepted by the verifier with a weaker or no specification)' % norm(old_))
        apply_r8(mt, log)
        apply_r27(mt, log)
        if 'nom' in (spec.get('rulesets') or []):
            apply_r29(mt, log)
        apply_r33(mt, log)
        apply_global_rules(mt, log)
        # All woven text goes in through placeholders that are expanded at the very end, so that loop / closure
        # ordinals and text anchors are resolved on code-only text (post-rewrite), never on woven ghost text.
        holders = []
        holder_ids = []
        dropped = getattr(self, 'drop_aids', {}).get(unit, set())

        def hold(text, aid='?'):
            holder_ids.append(aid)
            holders.append('' if aid in dropped else text)
            return '/*@@W%d@@*/' % (len(holders) - 1)
        # pattern-driven ghost instrumentation: one woven line after every match
        for ae in spec['aftereach']:
            pos = 0
            cnt = 0
            while True:
                m = re.compile(ae['rx']).search(mt.text, pos)
                if not m:
                    break
                ins = hold(m.expand(ae['text']), 'after-each:%s' % ae['rx'])
                mt.insert_line_after(m.end() - 1, ins)
                pos = m.end() + len(ins) + 1
                cnt += 1
            log.append(('ghost', 'after-each /%s/: %d sites instrumented' % (ae['rx'], cnt)))
        # identifier renames discovered by fuzzy re-anchoring (a local was renamed in an anchor line): applied to every woven aid
        renames = dict(sub_renames)
        fuzzy = []
        for at in spec['ats']:
            if not at.get('rx') and mt.text.count(at['anchor']) == 0:
                fz = fuzzy_locate(mt.text, at['anchor'])
                if fz:
                    renames.update(fz[2])
        msk0 = mask(mt.text)
        loops0 = find_loops(msk0, 0, len(msk0))
        for key_ in spec['loops']:
            if not isinstance(key_, int):
                kt0 = key_.partition('#')[0]
                if not any(norm(kt0) in norm(mt.text[kw_:br_]) for kw_, br_, kd_ in loops0):
                    cand = sorted([(len(fz_[2]), k_, fz_[2]) for k_, (kw_, br_, kd_) in enumerate(loops0) for fz_ in [fuzzy_locate(norm(mt.text[kw_:br_]), norm(kt0))] if fz_], key=lambda t: t[:2])
                    if cand and (len(cand) == 1 or cand[1][0] > cand[0][0]):
                        renames.update(cand[0][2])
        if renames:
            log.append(('fuzzy', 'identifier renames applied to the woven proof aids: %s' % ', '.join('%s -> %s' % kv for kv in sorted(renames.items()))))
        # text anchors
        for at in spec['ats']:
            at = dict(at, text=apply_renames(at['text'], renames))
            if at.get('rx'):
                ms = list(re.finditer(at['anchor'], mt.text))
                cnt = len(ms)
                if cnt == 1:
                    i, alen = ms[0].start(), ms[0].end() - ms[0].start()
            else:
                cnt = mt.text.count(at['anchor'])
                i, alen = mt.text.find(at['anchor']), len(at['anchor'])
                if at.get('nth') and cnt >= at['nth']:
                    for _ in range(at['nth'] - 1):
                        i = mt.text.find(at['anchor'], i + 1)
                    cnt = 1
            if cnt != 1 and not at.get('rx'):
                fz = fuzzy_locate(mt.text, at['anchor']) if cnt == 0 else None
                if fz:
                    i, alen, cnt = fz[0], fz[1], 1
                    fuzzy.append('hint anchor %r re-anchored on %r' % (at['anchor'], norm(mt.text[i:i + alen])))
            if cnt != 1:
                if not at.get('optional'):
                    lost.append('hint anchor %r (matches %d times)' % (at['anchor'], cnt))
                continue
            if at['where'] == 'before':
                mt.insert_line_at(i, hold(at['text'], 'at:%s' % at['anchor']))
            else:
                mt.insert_line_after(i + alen - 1, hold(at['text'], 'at:%s' % at['anchor']))
        # loops: keyed by ordinal (source order) or by header text; resolved to offsets first, woven back to front
        msk = mask(mt.text)
        loops = find_loops(msk, 0, len(msk))
        chosen = []
        for key_, sec in spec['loops'].items():
            idx = None
            if isinstance(key_, int):
                if 1 <= key_ <= len(loops):
                    idx = key_ - 1
            else:
                kt, _, kn = key_.partition('#')
                hits = [i_ for i_, (kw_, br_, kd_) in enumerate(loops) if norm(kt) in norm(mt.text[kw_:br_])]
                if not hits:
                    cand = [(len(fz_[2]), i_) for i_, (kw_, br_, kd_) in enumerate(loops) for fz_ in [fuzzy_locate(norm(mt.text[kw_:br_]), norm(kt))] if fz_]
                    cand.sort()
                    hits = [cand[0][1]] if cand and (len(cand) == 1 or cand[1][0] > cand[0][0]) else []
                    if hits:
                        fuzzy.append('loop %r re-anchored on %r' % (key_, norm(mt.text[loops[hits[0]][0]:loops[hits[0]][1]])))
                if kn and kn.isdigit() and len(hits) >= int(kn):
                    idx = hits[int(kn) - 1]
                elif not kn and len(hits) == 1:
                    idx = hits[0]
            if idx is None:
                lost.append('loop %r' % (key_,))
                continue
            chosen.append((idx, apply_renames(sec['text'], renames), key_))
        for idx, txt, key_ in sorted(chosen, reverse=True):
            kw, brace, kind = loops[idx]
            n = idx + 1
            if kind == 'for':
                hm = re.match(r'for\s+(.+?)\s+in\s+', mt.text[kw:brace], re.S)
                if not hm:
                    lost.append('loop %r header shape' % (key_,))
                    continue
                ins = kw + hm.end()
                itname = '__it%d' % n if isinstance(key_, int) else '__it_' + re.sub(r'\W+', '_', key_).strip('_')[:24]
                mt.replace(brace, brace, '\n' + hold(txt.replace('__IT', itname), 'loop:%s' % (key_,)) + '\n', woven=True)
                mt.replace(ins, ins, itname + ': ')
                log.append(('R11', 'loop %r: ghost iterator %s + woven invariants' % (key_, itname)))
            else:
                mt.replace(brace, brace, '\n' + hold(txt, 'loop:%s' % (key_,)) + '\n', woven=True)
                log.append(('R11', 'loop %r: woven invariants' % (key_,)))
        # closures: keyed by ordinal or by the text of their parameter list
        msk = mask(mt.text)
        cls = [(a_, b_) for a_, b_ in find_closures(msk, 0, len(msk)) if not msk[b_:].lstrip().startswith('->')]
        chosen = []
        for key_, sec in spec['closures'].items():
            idx = None
            if isinstance(key_, int):
                if 1 <= key_ <= len(cls):
                    idx = key_ - 1
            else:
                hits = [i_ for i_, (a_, b_) in enumerate(cls) if norm(mt.text[a_:b_]) == norm(key_)]
                if len(hits) >= 1:
                    idx = hits
            if idx is None:
                lost.append('closure %r' % (key_,))
                continue
            for i_ in (idx if isinstance(idx, list) else [idx]):
                chosen.append((i_, apply_renames(sec['text'], renames), key_))
        for idx, txt0, key_ in sorted(chosen, reverse=True):
            a, b = cls[idx]
            txt = hold(txt0.strip(), 'closure:%s#%d' % (key_, idx + 1))
            xmark = '/*@@XE%d@@*/' % (len(holders) - 1)     # end of the closure body: the aid's extent covers the whole closure
            rest = msk[b:]
            lead = len(rest) - len(rest.lstrip())
            if rest.lstrip().startswith('{'):
                e_ = match_close(msk, b + lead)
                if not any(b < cls[i2][0] <= e_ for i2, _, _ in chosen if i2 != idx):
                    mt.replace(e_ + 1, e_ + 1, xmark)
                mt.replace(b, b, ' ' + txt + ' ', woven=False)
            else:
                depth, j = 0, b
                while j < len(msk):
                    c = msk[j]
                    if c in '([{':
                        j = match_close(msk, j) + 1
                        continue
                    if c in ')]}' or (c == ',' and depth == 0):
                        break
                    j += 1
                mt.replace(j, j, ' }' + ('' if any(b < cls[i2][0] <= j for i2, _, _ in chosen if i2 != idx) else xmark))
                mt.replace(b, b + lead, ' ' + txt + ' { ')
            log.append(('closure', 'closure %r: woven contract' % (key_,)))
        # expand placeholders; start/end markers (inline comments, no newlines) give each aid's final line span
        aid_spans = []
        for k in range(len(holders) - 1, -1, -1):
            ph = '/*@@W%d@@*/' % k
            i = mt.text.find(ph)
            if i < 0:
                raise SliceError('%s: internal: placeholder %d lost' % (unit, k))
            mt.replace(i, i + len(ph), '/*@@S%d@@*/%s/*@@E%d@@*/' % (k, holders[k], k), woven=True)
        for k in range(len(holders)):
            a_ = mt.text.find('/*@@S%d@@*/' % k)
            b_ = mt.text.find('/*@@E%d@@*/' % k)
            x_ = mt.text.find('/*@@XE%d@@*/' % k)
            if a_ >= 0 and b_ >= 0 and holders[k]:
                aid_spans.append((holder_ids[k], mt.text.count('\n', 0, a_), mt.text.count('\n', 0, max(b_, x_))))
        for k in range(len(holders)):
            for mk in ('/*@@S%d@@*/' % k, '/*@@E%d@@*/' % k, '/*@@XE%d@@*/' % k):
                a_ = mt.text.find(mk)
                if a_ >= 0:
                    mt.replace(a_, a_ + len(mk), '', woven=True)
        # regions: attribute a failing exit to the properties of the arm it lies in
        regions = []
        rmsk = mask(mt.text)
        for rg in spec['regions']:
            m = re.search(rg['rx'], mt.text)
            if m:
                # extent of the region: the block (or the single arm expression) that the anchor opens; code that FOLLOWS the closing brace belongs
                # to the enclosing region again (inserted code after an arm is not attributed to that arm)
                j = m.end()
                while j < len(rmsk) and rmsk[j].isspace():
                    j += 1
                k = j
                depth = 0
                while k < len(rmsk):
                    c = rmsk[k]
                    if c in '([{':
                        if c == '{' and depth == 0:
                            k = match_close(rmsk, k)
                            break
                        depth += 1
                    elif c in ')]}':
                        if depth == 0:
                            break
                        depth -= 1
                    elif c in ',;' and depth == 0:
                        break
                    k += 1
                regions.append((mt.text.count('\n', 0, m.start()), rg['props'], rg['rx'], mt.text.count('\n', 0, min(k, len(mt.text) - 1))))
        w.emit('    {')
        if r4:
            w.emit('        let mut this = self;')
        if spec['entry']:
            w.emit(spec['entry']['text'])
        body_start = w.lineno + 1
        if spec['tailbind']:
            # R19: `body`  ==>  `let r = { body }; <ghost tail>; r`   (a block evaluates to its tail expression)
            w.emit('        let %s = {' % spec['tailbind'])
            body_start = w.lineno + 1
            log.append(('R19', 'body => let %s = { body }; <ghost>; %s' % (spec['tailbind'], spec['tailbind'])))
        w.emit(mt.text, file, mt.origin)
        if spec['tailbind']:
            w.emit('        };')
        if spec['tail']:
            w.emit(spec['tail']['text'])
        if spec['tailbind']:
            w.emit('        ' + spec['tailbind'])
        w.emit('    }')
        if impl_open:
            w.emit('}')
        w.units.append(dict(unit=unit, mode=mode, file=file, item=' :: '.join(segs), src_line=sig_first,
                            sha256=S.sha(it['start'], it['end']), line_start=unit_start, line_end=w.lineno,
                            body_start=body_start, rules=log, props_safety=spec['props_safety'],
                            props_internal=spec['props_internal'], fn=it['name'], notes=spec['notes'],
                            regions=sorted([(body_start + ln, pr, rx, body_start + ln_end) for ln, pr, rx, ln_end in regions]), lost_anchors=lost, fuzzy_anchors=fuzzy, renames=renames,
                            aids=[(a_, body_start + l0_, body_start + l1_) for a_, l0_, l1_ in aid_spans],
                            dropped_aids=sorted(dropped)))


def main():
    import argparse
    ap = argparse.ArgumentParser()
    ap.add_argument('group')
    ap.add_argument('--repo', default=os.environ.get('VERIF_REPO', '/repo'))
    ap.add_argument('--out', default=None)
    a = ap.parse_args()
    try:
        w = Weaver(a.repo).weave(a.group)
    except SliceError as e:
        print('UNDECIDED anchor: %s' % e)
        sys.exit(2)
    out = a.out or os.path.join(VERIF, 'build', a.group + '.rs')
    os.makedirs(os.path.dirname(out), exist_ok=True)
    open(out, 'w').write('\n'.join(w.lines) + '\n')
    json.dump(dict(group=w.group, srcmap=w.srcmap, labels=w.labels, units=w.units, items=w.items),
              open(out[:-3] + '.map.json', 'w'), indent=1)
    print('woven %s: %d lines, %d units, %d labelled clauses' % (out, len(w.lines), len(w.units), len(w.labels)))


if __name__ == '__main__':
    main()
