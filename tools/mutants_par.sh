#!/bin/sh
# run tools/mutants.py over every seeded change in N parallel shards and merge the results into seeded/RESULTS.json
# usage: tools/mutants_par.sh [N] [names...]
cd "$(dirname "$0")/.."
N=${1:-4}; [ $# -gt 0 ] && shift
names="$*"
[ -z "$names" ] && names=$(ls -d seeded/*/ | xargs -n1 basename)
mkdir -p build/mut
i=0
for n in $names; do k=$((i % N)); eval "s$k=\"\$s$k $n\""; i=$((i+1)); done
k=0
while [ $k -lt $N ]; do
  eval "lst=\$s$k"
  if [ -n "$lst" ]; then rm -f build/mut/shard$k.json; VERIF_JOBS=4 python3 tools/mutants.py --out build/mut/shard$k.json $lst > build/mut/shard$k.log 2>&1 & fi
  k=$((k+1))
done
wait
python3 - <<'PY'
import json, glob, os
p = 'seeded/RESULTS.json'
res = json.load(open(p)) if os.path.exists(p) else {}
for f in sorted(glob.glob('build/mut/shard*.json')):
    res.update(json.load(open(f)))
json.dump(res, open(p, 'w'), indent=1, sort_keys=True)
print(len(res), 'entries in', p)
PY
