use vstd::prelude::*;
use std::sync::Arc;
use std::collections::HashMap;
use std::convert::TryFrom;
verus! {
pub struct Map { pub map: Arc<HashMap<Key, Value>> }
pub enum Key { Int(i64), Uint(u64), Bool(bool), String(Arc<String>) }
pub enum Value { List(Arc<Vec<Value>>), Map(Map), Int(i64), UInt(u64), Bool(bool), String(Arc<String>), Null }

pub enum SKey { Int(int), Uint(int), Bool(bool), Str(Seq<char>) }
pub enum SVal { List(Seq<SVal>), Map(vstd::map::Map<SKey, SVal>), Int(int), UInt(int), Bool(bool), Str(Seq<char>), Null }

pub open spec fn kview(k: Key) -> SKey {
    match k { Key::Int(i) => SKey::Int(i as int), Key::Uint(u) => SKey::Uint(u as int), Key::Bool(b) => SKey::Bool(b), Key::String(s) => SKey::Str(s@) }
}
pub mod ax {
    use super::*;
    #[verifier::external_body]
    pub broadcast proof fn axiom_i64_try_from_u64()
        ensures #[trigger] <i64 as vstd::std_specs::convert::TryFromSpec<u64>>::obeys_try_from_spec(),
            forall|k: u64| (#[trigger] <i64 as vstd::std_specs::convert::TryFromSpec<u64>>::try_from_spec(k)) is Ok <==> k <= i64::MAX as u64,
            forall|k: u64| k <= i64::MAX as u64 ==> (#[trigger] <i64 as vstd::std_specs::convert::TryFromSpec<u64>>::try_from_spec(k))->Ok_0 == k as i64,
    {}
    #[verifier::external_body]
    pub broadcast proof fn axiom_string_ext(a: String, b: String)
        ensures #![trigger a@, b@] (a@ =~= b@) ==> a == b
    {}
}
broadcast use {ax::axiom_i64_try_from_u64, ax::axiom_string_ext, vstd::std_specs::hash::group_hash_axioms};
#[verifier::external_body]
pub proof fn axiom_key_model() ensures vstd::std_specs::hash::obeys_key_model::<Key>() {}

pub proof fn lemma_kview_injective(a: Key, b: Key)
    requires kview(a) == kview(b)
    ensures a == b
{
    match (a, b) {
        (Key::String(x), Key::String(y)) => { assert(x@ =~= y@); assert(*x == *y); }
        _ => {}
    }
}

// abstract map: keys through kview, values through vview
pub open spec fn amap(m: vstd::map::Map<Key, Value>) -> vstd::map::Map<SKey, SVal>
    decreases m via amap_dec
{
    vstd::map::Map::new(
        m.dom().map(|k: Key| kview(k)),
        |sk: SKey| { let k = choose|k: Key| m.contains_key(k) && kview(k) == sk; if m.contains_key(k) { vview(m[k]) } else { SVal::Null } },
    )
}
#[via_fn]
proof fn amap_dec(m: vstd::map::Map<Key, Value>) {}

pub open spec fn vview(v: Value) -> SVal
    decreases v
{
    match v {
        Value::List(l) => SVal::List(Seq::new(l@.len(), |i: int| if 0 <= i < l@.len() { vview(l@[i]) } else { SVal::Null })),
        Value::Map(m) => SVal::Map(amap(m.map@)),
        Value::Int(i) => SVal::Int(i as int),
        Value::UInt(u) => SVal::UInt(u as int),
        Value::Bool(b) => SVal::Bool(b),
        Value::String(s) => SVal::Str(s@),
        Value::Null => SVal::Null,
    }
}

pub proof fn lemma_amap_get(m: vstd::map::Map<Key, Value>, k: Key)
    ensures
        m.contains_key(k) ==> (amap(m).contains_key(kview(k)) && amap(m)[kview(k)] == vview(m[k])),
        !m.contains_key(k) ==> !amap(m).contains_key(kview(k)),
{
    if m.contains_key(k) {
        assert(m.dom().contains(k));
        assert(m.dom().map(|k: Key| kview(k)).contains(kview(k)));
        let k2 = choose|k2: Key| m.contains_key(k2) && kview(k2) == kview(k);
        lemma_kview_injective(k2, k);
    } else {
        if amap(m).contains_key(kview(k)) {
            let k2 = choose|k2: Key| m.dom().contains(k2) && kview(k2) == kview(k);
            lemma_kview_injective(k2, k);
        }
    }
}

pub open spec fn twin(k: SKey) -> Option<SKey> {
    match k {
        SKey::Int(i) => if i >= 0 { Some(SKey::Uint(i)) } else { None },
        SKey::Uint(u) => if u <= i64::MAX { Some(SKey::Int(u)) } else { None },
        _ => None,
    }
}
pub open spec fn mget(m: vstd::map::Map<SKey, SVal>, k: SKey) -> Option<SVal> {
    if m.contains_key(k) { Some(m[k]) } else {
        match twin(k) { Some(t) => if m.contains_key(t) { Some(m[t]) } else { None }, None => None }
    }
}
pub assume_specification<T, F: FnOnce() -> Option<T>>[Option::<T>::or_else](a: Option<T>, f: F) -> (r: Option<T>)
    requires a is None ==> f.requires(()),
    ensures a is Some ==> r == a, a is None ==> f.ensures((), r);

impl Map {
    pub fn get(&self, key: &Key) -> (res: Option<&Value>)
        ensures
            // [C14.map_get] one lookup semantics for every way of asking: the key, else its int/uint twin
            match mget(amap(self.map@), kview(*key)) { Some(sv) => res is Some && vview(*res->Some_0) == sv, None => res is None },
    {
        proof {
            axiom_key_model();
            lemma_amap_get(self.map@, *key);
            match *key {
                Key::Int(k) => { if k >= 0 { lemma_amap_get(self.map@, Key::Uint(k as u64)); } }
                Key::Uint(k) => { if k <= i64::MAX as u64 { lemma_amap_get(self.map@, Key::Int(k as i64)); } }
                _ => {}
            }
        }
        self.map.get(key).or_else(|| -> (r: Option<&Value>)
            ensures match twin(kview(*key)) { Some(t) => match r { Some(v) => amap(self.map@).contains_key(t) && amap(self.map@)[t] == vview(*v), None => !amap(self.map@).contains_key(t) }, None => r is None }
        {
            proof {
                axiom_key_model();
                match *key {
                    Key::Int(k) => { if k >= 0 { lemma_amap_get(self.map@, Key::Uint(k as u64)); } }
                    Key::Uint(k) => { if k <= i64::MAX as u64 { lemma_amap_get(self.map@, Key::Int(k as i64)); } }
                    _ => {}
                }
            }
            // Also check keys that are cross type comparable.
            let converted = match key {
                Key::Int(k) => Key::Uint(u64::try_from(*k).ok()?),
                Key::Uint(k) => Key::Int(i64::try_from(*k).ok()?),
                _ => return None,
            };
            self.map.get(&converted)
        })
    }
}
} // verus!
impl PartialEq for Key { fn eq(&self, o: &Self) -> bool { unimplemented!() } }
impl Eq for Key {}
impl std::hash::Hash for Key { fn hash<H: std::hash::Hasher>(&self, h: &mut H) { unimplemented!() } }
fn main() {}
