use vstd::prelude::*;
use vstd::std_specs::ops::*;
use vstd::std_specs::convert::*;
use std::sync::Arc;
use std::collections::HashMap;
verus! {
pub struct Map { pub map: Arc<HashMap<Key, Value>> }
pub enum Key { Int(i64), Uint(u64), Bool(bool), String(Arc<String>) }
pub enum Value {
    List(Arc<Vec<Value>>),
    Map(Map),
    Function(Arc<String>, Option<Box<Value>>),
    Int(i64), UInt(u64), Float(f64), String(Arc<String>), Bytes(Arc<Vec<u8>>), Bool(bool), Null,
}
pub enum ExecutionError {
    IntegerOverflow(&'static str, Value, Value),
    UnsupportedBinaryOperator(&'static str, Value, Value),
}
pub type ResolveResult = Result<Value, ExecutionError>;

#[verifier::external_body]
fn __arc_make_mut<T: Clone>(a: &mut Arc<T>) -> (r: &mut T)
    ensures *r == **old(a), *final(r) == **final(a)
{ Arc::make_mut(a) }
#[verifier::external_body]
fn __arc_get_mut<T>(a: &mut Arc<T>) -> (r: Option<&mut T>)
    ensures r is Some ==> (*r->Some_0 == **old(a) && *final(r->Some_0) == **final(a)),
            r is None ==> **final(a) == **old(a)
{ Arc::get_mut(a) }
impl Clone for Value { #[verifier::external_body] fn clone(&self) -> (r: Value) ensures r == *self { unimplemented!() } }

impl FromSpecImpl<i64> for Value { open spec fn obeys_from_spec() -> bool { true } open spec fn from_spec(v: i64) -> Value { Value::Int(v) } }
impl From<i64> for Value { fn from(v: i64) -> Value { Value::Int(v) } }
impl FromSpecImpl<u64> for Value { open spec fn obeys_from_spec() -> bool { true } open spec fn from_spec(v: u64) -> Value { Value::UInt(v) } }
impl From<u64> for Value { fn from(v: u64) -> Value { Value::UInt(v) } }
impl FromSpecImpl<f64> for Value { open spec fn obeys_from_spec() -> bool { true } open spec fn from_spec(v: f64) -> Value { Value::Float(v) } }
impl From<f64> for Value { fn from(v: f64) -> Value { Value::Float(v) } }
impl From<Value> for ResolveResult { fn from(v: Value) -> (r: ResolveResult) ensures r == Ok::<Value, ExecutionError>(v) { Ok(v) } }
impl AddSpecImpl<Value> for Value { open spec fn obeys_add_spec() -> bool { false } open spec fn add_req(self, rhs: Value) -> bool { true } open spec fn add_spec(self, rhs: Value) -> ResolveResult { arbitrary() } }
impl std::ops::Add<Value> for Value {
    type Output = ResolveResult;

    #[inline(always)]
    fn add(self, rhs: Value) -> (res: Self::Output)
        ensures
            match (self, rhs) {
                (Value::Int(l), Value::Int(r)) => if i64::MIN <= l + r <= i64::MAX { res == Ok::<Value, ExecutionError>(Value::Int((l + r) as i64)) }
                    else { res == Err::<Value, ExecutionError>(ExecutionError::IntegerOverflow("add", Value::Int(l), Value::Int(r))) },
                (Value::UInt(l), Value::UInt(r)) => if l + r <= u64::MAX { res == Ok::<Value, ExecutionError>(Value::UInt((l + r) as u64)) }
                    else { res == Err::<Value, ExecutionError>(ExecutionError::IntegerOverflow("add", Value::UInt(l), Value::UInt(r))) },
                (Value::List(l), Value::List(r)) => res matches Ok(Value::List(o)) && o@ =~= l@ + r@,
                (Value::String(l), Value::String(r)) => res matches Ok(Value::String(o)) && o@ =~= l@ + r@,
                (Value::Float(_), Value::Float(_)) => res matches Ok(Value::Float(_)),
                _ => res matches Err(ExecutionError::UnsupportedBinaryOperator(_, _, _)),
            }
    {
        match (self, rhs) {
            (Value::Int(l), Value::Int(r)) => l
                .checked_add(r)
                .ok_or(ExecutionError::IntegerOverflow("add", l.into(), r.into()))
                .map(|v| -> (o: Value) ensures o == Value::Int(v) { Value::Int(v) }),

            (Value::UInt(l), Value::UInt(r)) => l
                .checked_add(r)
                .ok_or(ExecutionError::IntegerOverflow("add", l.into(), r.into()))
                .map(|v| -> (o: Value) ensures o == Value::UInt(v) { Value::UInt(v) }),

            (Value::Float(l), Value::Float(r)) => Value::Float(l + r).into(),

            (Value::List(mut l), Value::List(mut r)) => {
                {
                    // If this is the only reference to `l`, we can append to it in place.
                    // `l` is replaced with a clone otherwise.
                    let l = __arc_make_mut(&mut l);

                    // Likewise, if this is the only reference to `r`, we can move its values
                    // instead of cloning them.
                    match __arc_get_mut(&mut r) {
                        Some(r) => l.append(r),
                        None => l.extend_from_slice(&r[..]),
                    }
                }

                Ok(Value::List(l))
            }
            (Value::String(mut l), Value::String(r)) => {
                // If this is the only reference to `l`, we can append to it in place.
                // `l` is replaced with a clone otherwise.
                __arc_make_mut(&mut l).push_str(&r);
                Ok(Value::String(l))
            }


            (left, right) => Err(ExecutionError::UnsupportedBinaryOperator(
                "add", left, right,
            )),
        }
    }
}


} // verus!
fn main() {}
