use vstd::prelude::*;
use vstd::std_specs::convert::*;
use std::collections::HashMap;
use std::sync::Arc;
verus! {
pub enum Value { Int(i64), Null }
pub enum ExecutionError { UndeclaredReference(Arc<String>) }
pub struct Expression { pub id: u64 }
#[verifier::external_body]
pub struct Function { f: Box<dyn Fn(u8) -> u8 + Send + Sync> }
#[derive(Default)]
pub struct FunctionRegistry { functions: HashMap<String, Function> }
impl FunctionRegistry {
    #[verifier::external_body]
    pub(crate) fn get(&self, name: &str) -> Option<&Function> { unimplemented!() }
    #[verifier::external_body]
    pub(crate) fn has(&self, name: &str) -> bool { unimplemented!() }
    #[verifier::external_body]
    pub(crate) fn add<F, T>(&mut self, name: &str, function: F) where F: IntoFunction<T> + 'static + Send + Sync, T: 'static { unimplemented!() }
}
pub trait IntoFunction<T> { fn into_function(self) -> Function; }
pub trait TryIntoValue { type Error; fn try_into_value(self) -> Result<Value, Self::Error>; }
impl Value {
    #[verifier::external_body]
    pub fn resolve(expr: &Expression, ctx: &Context) -> Result<Value, ExecutionError> { unimplemented!() }
    #[verifier::external_body]
    pub fn resolve_all(expr: &[Expression], ctx: &Context) -> Result<Value, ExecutionError> { unimplemented!() }
}

impl Clone for Value { #[verifier::external_body] fn clone(&self) -> (r: Value) ensures r == *self { unimplemented!() } }
#[verifier::external_body]
pub broadcast proof fn axiom_string_ext(a: String, b: String)
    ensures #![trigger a@, b@] (a@ =~= b@) ==> a == b
{}
#[verifier::external_body]
pub broadcast proof fn axiom_string_into_string()
    ensures #[trigger] <String as IntoSpec<String>>::obeys_into_spec(),
            forall|s: String| #[trigger] IntoSpec::<String>::into_spec(s) == s,
{}
#[verifier::external_body]
pub proof fn axiom_string_key_model() ensures vstd::std_specs::hash::obeys_key_model::<String>() {}
pub open spec fn scopes(c: Context) -> Seq<Map<String, Value>>
    decreases c
{
    match c {
        Context::Root { functions, variables } => seq![variables@],
        Context::Child { parent, variables } => scopes(*parent).push(variables@),
    }
}
pub open spec fn lookup(s: Seq<Map<String, Value>>, name: String) -> Option<Value>
    decreases s.len()
{
    if s.len() == 0 { None } else if s.last().contains_key(name) { Some(s.last()[name]) } else { lookup(s.drop_last(), name) }
}
pub enum Context<'a> {
    Root {
        functions: FunctionRegistry,
        variables: HashMap<String, Value>,
    },
    Child {
        parent: &'a Context<'a>,
        variables: HashMap<String, Value>,
    },
}

impl Context<'_> {
    pub fn add_variable<S, V>(
        &mut self,
        name: S,
        value: V,
    ) -> Result<(), <V as TryIntoValue>::Error>
    where
        S: Into<String>,
        V: TryIntoValue,
    {
        match self {
            Context::Root { variables, .. } => {
                variables.insert(name.into(), value.try_into_value()?);
            }
            Context::Child { variables, .. } => {
                variables.insert(name.into(), value.try_into_value()?);
            }
        }
        Ok(())
    }

    pub fn add_variable_from_value<S, V>(&mut self, name: S, value: V)
    where
        S: Into<String>,
        V: Into<Value>,
        requires <S as IntoSpec<String>>::obeys_into_spec(), <V as IntoSpec<Value>>::obeys_into_spec(),
        ensures
            scopes(*final(self)).len() == scopes(*old(self)).len(),
            scopes(*final(self)).drop_last() == scopes(*old(self)).drop_last(),
            scopes(*final(self)).last() == scopes(*old(self)).last().insert(IntoSpec::<String>::into_spec(name), IntoSpec::<Value>::into_spec(value)),
    {
        broadcast use vstd::std_specs::hash::group_hash_axioms;
        broadcast use axiom_string_into_string;
        proof { axiom_string_key_model(); }
        match self {
            Context::Root { variables, .. } => {
                variables.insert(name.into(), value.into());
            }
            Context::Child { variables, .. } => {
                variables.insert(name.into(), value.into());
            }
        }
    }

    // todo! The Into<String> here is probably unnecessary, as the lookup only requires &str.
    pub fn get_variable<S>(&self, name: S) -> (res: Result<Value, ExecutionError>)
    where
        S: Into<String>,
        requires <S as IntoSpec<String>>::obeys_into_spec(),
        ensures match lookup(scopes(*self), IntoSpec::<String>::into_spec(name)) {
            Some(v) => res == Ok::<Value, ExecutionError>(v),
            None => res is Err && res->Err_0 is UndeclaredReference,
        }
        decreases self
    {
        broadcast use vstd::std_specs::hash::group_hash_axioms;
        broadcast use axiom_string_into_string;
        proof { axiom_string_key_model(); }
        proof {
            match self {
                Context::Child { parent, variables } => {
                    let n = IntoSpec::<String>::into_spec(name);
                    assert(scopes(*self).drop_last() =~= scopes(**parent));
                    assert(scopes(*self).last() == variables@);
                    assert(lookup(scopes(*self), n) == (if variables@.contains_key(n) { Some(variables@[n]) } else { lookup(scopes(**parent), n) }));
                }
                Context::Root { functions, variables } => {
                    let n = IntoSpec::<String>::into_spec(name);
                    assert(scopes(*self).drop_last() =~= Seq::<Map<String, Value>>::empty());
                    assert(scopes(*self).last() == variables@);
                    assert(lookup(Seq::<Map<String, Value>>::empty(), n) == None::<Value>);
                    assert(lookup(scopes(*self), n) == (if variables@.contains_key(n) { Some(variables@[n]) } else { None::<Value> }));
                }
            }
        }
        let name = name.into();
        match self {
            Context::Child { variables, parent } => match variables.get(&name) {
                Some(value) => Ok(value.clone()),
                None => parent.get_variable(name),
            },
            Context::Root { variables, .. } => variables
                .get(&name)
                .cloned()
                .ok_or_else(|| ExecutionError::UndeclaredReference(name.into())),
        }
    }

    pub(crate) fn has_function(&self, name: &str) -> bool
        decreases self
    {
        match self {
            Context::Root { functions, .. } => functions.has(name),
            Context::Child { parent, .. } => parent.has_function(name),
        }
    }

    pub(crate) fn get_function(&self, name: &str) -> Option<&Function>
        decreases self
    {
        match self {
            Context::Root { functions, .. } => functions.get(name),
            Context::Child { parent, .. } => parent.get_function(name),
        }
    }

    pub fn add_function<T: 'static, F>(&mut self, name: &str, value: F)
    where
        F: IntoFunction<T> + 'static + Send + Sync,
    {
        if let Context::Root { functions, .. } = self {
            functions.add(name, value);
        };
    }

    pub fn resolve(&self, expr: &Expression) -> Result<Value, ExecutionError> {
        Value::resolve(expr, self)
    }

    pub fn resolve_all(&self, exprs: &[Expression]) -> Result<Value, ExecutionError> {
        Value::resolve_all(exprs, self)
    }

    pub fn new_inner_scope(&self) -> (r: Context)
        ensures scopes(r) == scopes(*self).push(Map::<String, Value>::empty())
    {
        Context::Child {
            parent: self,
            variables: Default::default(),
        }
    }

    /// Constructs a new empty context with no variables or functions.
    ///
    /// If you're looking for a context that has all the standard methods, functions
    /// and macros already added to the context, use [`Context::default`] instead.
    ///
    /// # Example
    /// ```
    /// use cel_interpreter::Context;
    /// let mut context = Context::empty();
    /// context.add_function("add", |a: i64, b: i64| a + b);
    /// ```
    pub fn empty() -> Self {
        Context::Root {
            variables: Default::default(),
            functions: Default::default(),
        }
    }
}


} // verus!
fn main() {}
