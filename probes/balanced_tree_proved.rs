use vstd::prelude::*;
use std::mem;
verus! {
pub assume_specification [usize::div_ceil] (a: usize, b: usize) -> (r: usize)
    requires b != 0
    ensures r as int == (a as int + b as int - 1) / (b as int);
pub assume_specification<T: Default> [core::mem::take::<T>] (dest: &mut T) -> (r: T)
    ensures r == *old(dest);
pub enum Expr { Unspecified, Call(CallExpr), Ident(String) }
pub struct IdedExpr { pub id: u64, pub expr: Expr }
pub struct CallExpr { pub func_name: String, pub target: Option<Box<IdedExpr>>, pub args: Vec<IdedExpr> }
impl Default for IdedExpr { fn default() -> Self { IdedExpr { id: 0, expr: Expr::Unspecified } } }

// e is a tree of `f`-calls whose operands, in order, are ts and whose op ids, in order, are os
pub open spec fn chain_ok(e: IdedExpr, f: String, ts: Seq<IdedExpr>, os: Seq<u64>) -> bool
    decreases os.len()
{
    ts.len() == os.len() + 1 && (
        if os.len() == 0 { e == ts[0] } else {
            exists|m: int| #![trigger os[m]] 0 <= m < os.len() && e.id == os[m]
                && (e.expr matches Expr::Call(c) && c.func_name == f && c.target is None && c.args@.len() == 2
                    && chain_ok(c.args@[0], f, ts.subrange(0, m + 1), os.subrange(0, m))
                    && chain_ok(c.args@[1], f, ts.subrange(m + 1, ts.len() as int), os.subrange(m + 1, os.len() as int)))
        })
}
struct LogicManager {
    function: String,
    terms: Vec<IdedExpr>,
    ops: Vec<u64>,
}

impl LogicManager {
    pub(crate) fn expr(self) -> (res: IdedExpr)
        requires self.terms.len() == self.ops.len() + 1, self.ops.len() < usize::MAX / 2,
        ensures chain_ok(res, self.function, self.terms@, self.ops@),
    {
        let mut this = self;
        proof { assert(self.terms@.subrange(0, self.terms@.len() as int) =~= self.terms@); assert(self.ops@.subrange(0, self.ops@.len() as int) =~= self.ops@); }
        if this.terms.len() == 1 {
            this.terms.pop().expect("expected at least one term")
        } else {
            this.balanced_tree(0, this.ops.len() - 1)
        }
    }

    pub(crate) fn add_term(&mut self, op_id: u64, expr: IdedExpr)
        ensures final(self).terms@ == old(self).terms@.push(expr), final(self).ops@ == old(self).ops@.push(op_id), final(self).function == old(self).function,
    {
        self.terms.push(expr);
        self.ops.push(op_id);
    }

    fn balanced_tree(&mut self, lo: usize, hi: usize) -> (res: IdedExpr)
        requires
            lo <= hi < old(self).ops.len(),
            old(self).terms.len() == old(self).ops.len() + 1,
            old(self).ops.len() < usize::MAX / 2,
        ensures
            final(self).terms.len() == old(self).terms.len(),
            final(self).ops == old(self).ops,
            final(self).function == old(self).function,
            forall|i: int| 0 <= i < old(self).terms.len() && !(lo <= i <= hi + 1) ==> final(self).terms@[i] == old(self).terms@[i],
            chain_ok(res, old(self).function, old(self).terms@.subrange(lo as int, hi + 2), old(self).ops@.subrange(lo as int, hi + 1)),
        decreases hi - lo
    {
        let ghost ts = self.terms@.subrange(lo as int, hi + 2);
        let ghost os = self.ops@.subrange(lo as int, hi + 1);
        let ghost f = self.function;
        let mid = (lo + hi).div_ceil(2);

        let left = if mid == lo {
            mem::take(&mut self.terms[mid])
        } else {
            self.balanced_tree(lo, mid - 1)
        };

        let ghost t1 = self.terms@;
        proof {
            assert(t1.subrange(mid + 1, hi + 2) =~= old(self).terms@.subrange(mid + 1, hi + 2));
        }
        let right = if mid == hi {
            mem::take(&mut self.terms[mid + 1])
        } else {
            self.balanced_tree(mid + 1, hi)
        };
        proof {
            let m = (mid - lo) as int;
            assert(ts.subrange(0, m + 1) =~= old(self).terms@.subrange(lo as int, mid + 1));
            assert(os.subrange(0, m) =~= old(self).ops@.subrange(lo as int, mid as int));
            assert(ts.subrange(m + 1, ts.len() as int) =~= old(self).terms@.subrange(mid + 1, hi + 2));
            assert(os.subrange(m + 1, os.len() as int) =~= old(self).ops@.subrange(mid + 1, hi + 1));
            assert(os[m] == old(self).ops@[mid as int]);
            assert(chain_ok(left, f, ts.subrange(0, m + 1), os.subrange(0, m)));
            assert(ts.subrange(m + 1, ts.len() as int) =~= t1.subrange(mid + 1, hi + 2));
            assert(mid == hi ==> right == t1[mid + 1] && t1.subrange(mid + 1, hi + 2)[0] == t1[mid + 1]);
            assert(chain_ok(right, f, ts.subrange(m + 1, ts.len() as int), os.subrange(m + 1, os.len() as int)));
        }

        IdedExpr {
            id: self.ops[mid],
            expr: Expr::Call(CallExpr {
                target: None,
                func_name: self.function.clone(),
                args: vec![left, right],
            }),
        }
    }
}


} // verus!
fn main() {}
