use vstd::prelude::*;
verus! {
pub open spec fn pow10(n: nat) -> nat decreases n { if n == 0 { 1 } else { 10 * pow10((n - 1) as nat) } }

// digits emitted by the fraction loop after i iterations (least significant first skipped while zero)
pub open spec fn fd(v0: nat, i: nat) -> Seq<u8>
    decreases i
{
    if i == 0 { Seq::empty() } else {
        let prev = fd(v0, (i - 1) as nat);
        let d = (v0 / pow10((i - 1) as nat)) % 10;
        if prev.len() > 0 || d != 0 { seq![(d + 48) as u8] + prev } else { Seq::empty() }
    }
}

proof fn lemma_pow10_step(v0: nat, i: nat)
    ensures (v0 / pow10(i)) / 10 == v0 / pow10(i + 1), pow10(i) > 0
    decreases i
{
    if i > 0 { lemma_pow10_step(v0, (i - 1) as nat); }
    assert(pow10(i + 1) == 10 * pow10(i));
    assert(pow10(i) > 0) by { if i > 0 { lemma_pow10_step(v0, (i-1) as nat); } }
    vstd::arithmetic::div_mod::lemma_div_denominator(v0 as int, pow10(i) as int, 10);
    assert(pow10(i) * 10 == 10 * pow10(i)) by(nonlinear_arith);
}

fn format_float(buf: &mut [u8], mut v: u64, prec: usize) -> (r: (usize, u64))
    requires old(buf).len() >= prec + 1, prec <= 9,
    ensures
        final(buf).len() == old(buf).len(),
        r.0 <= final(buf).len(),
        r.1 == v as nat / pow10(prec as nat),
        final(buf)@.subrange(r.0 as int, final(buf).len() as int)
            =~= (if fd(v as nat, prec as nat).len() > 0 { seq![46u8] + fd(v as nat, prec as nat) } else { Seq::<u8>::empty() }),
        final(buf)@.subrange(0, r.0 as int) =~= old(buf)@.subrange(0, r.0 as int),
{
    let ghost v0 = v as nat;
    let ghost len = buf.len();
    let mut w = buf.len();
    let mut print = false;
    assert(pow10(0) == 1);
    for _i in it: 0..prec 
        invariant
            buf.len() == len, len >= prec + 1, prec <= 9,
            v as nat == v0 / pow10(it.index@ as nat),
            print == (fd(v0, it.index@ as nat).len() > 0),
            fd(v0, it.index@ as nat).len() <= it.index@,
            w == len - fd(v0, it.index@ as nat).len(),
            buf@.subrange(w as int, len as int) =~= fd(v0, it.index@ as nat),
            buf@.subrange(0, w as int) =~= old(buf)@.subrange(0, w as int), old(buf).len() == len, w <= len,
    {
        proof { lemma_pow10_step(v0, it.index@ as nat); }
        let digit = v % 10;
        print = print || digit != 0;
        if print {
            w -= 1;
            buf[w] = digit as u8 + b'0';
        }
        v /= 10;
    }
    if print {
        w -= 1;
        buf[w] = b'.';
    }
    (w, v)
}

// decimal digits of v, most significant first; "0" for 0
pub open spec fn digits(v: nat) -> Seq<u8>
    decreases v
{
    if v < 10 { seq![(v + 48) as u8] } else { digits(v / 10) + seq![((v % 10) + 48) as u8] }
}
// digits of v with the empty sequence for 0 (loop form)
pub open spec fn digits0(v: nat) -> Seq<u8>
    decreases v
{
    if v == 0 { Seq::empty() } else { digits0(v / 10) + seq![((v % 10) + 48) as u8] }
}
proof fn lemma_digits0(v: nat)
    requires v > 0
    ensures digits0(v) =~= digits(v), digits0(v).len() <= 20 ==> true
    decreases v
{
    if v >= 10 { lemma_digits0(v / 10); } else { assert(digits0(v / 10) =~= Seq::<u8>::empty()); }
}
proof fn lemma_digits0_len(v: nat)
    requires v <= u64::MAX
    ensures digits0(v).len() <= 20
{
    // 2^64 < 10^20: unfold 20 times
    reveal_with_fuel(digits0, 22);
}

fn format_int(buf: &mut [u8], mut v: u64) -> (w: usize)
    requires old(buf).len() >= 20,
    ensures
        final(buf).len() == old(buf).len(),
        w < final(buf).len(),
        final(buf)@.subrange(w as int, final(buf).len() as int) =~= digits(v as nat),
        final(buf)@.subrange(0, w as int) =~= old(buf)@.subrange(0, w as int),
{
    let ghost v0 = v as nat;
    let ghost len = buf.len();
    let mut w = buf.len();
    if v == 0 {
        w -= 1;
        buf[w] = b'0';
    } else {
        proof { lemma_digits0_len(v0); lemma_digits0(v0); }
        while v > 0
            invariant
                buf.len() == len, old(buf).len() == len, len >= 20, w <= len,
                digits0(v0).len() <= 20,
                // already written suffix ++ what remains == digits0(v0)
                digits0(v as nat) + buf@.subrange(w as int, len as int) =~= digits0(v0),
                w == len - (digits0(v0).len() - digits0(v as nat).len()),
                buf@.subrange(0, w as int) =~= old(buf)@.subrange(0, w as int),
            decreases v
        {
            w -= 1;
            buf[w] = (v % 10) as u8 + b'0';
            v /= 10;
        }
    }
    w
}
} // verus!
fn main() {}
