use vstd::prelude::*;
use std::sync::Arc;
use std::collections::HashMap;
verus! {
pub struct Map { pub map: Arc<HashMap<Key, Value>> }
pub enum Key { Int(i64), Uint(u64), Bool(bool), String(Arc<String>) }
pub enum Value {
    List(Arc<Vec<Value>>),
    Map(Map),
    Function(Arc<String>, Option<Box<Value>>),
    Int(i64), UInt(u64), Float(f64), String(Arc<String>), Bytes(Arc<Vec<u8>>), Bool(bool), Null,
}
pub enum SKey { Int(int), Uint(int), Bool(bool), Str(Seq<char>) }
pub enum SVal {
    List(Seq<SVal>),
    Map(vstd::map::Map<Key, SVal>),
    Function(Seq<char>, Option<Box<SVal>>),
    Int(int), UInt(int), Float(f64), Str(Seq<char>), Bytes(Seq<u8>), Bool(bool), Null,
}
pub open spec fn kview(k: Key) -> SKey {
    match k { Key::Int(i) => SKey::Int(i as int), Key::Uint(u) => SKey::Uint(u as int), Key::Bool(b) => SKey::Bool(b), Key::String(s) => SKey::Str(s@) }
}
pub open spec fn vview(v: Value) -> SVal
    decreases v
{
    match v {
        Value::List(l) => SVal::List(Seq::new(l@.len(), |i: int| if 0 <= i < l@.len() { vview(l@[i]) } else { SVal::Null })),
        Value::Map(m) => SVal::Map(vstd::map::Map::new(m.map@.dom(), |k: Key| if m.map@.contains_key(k) { vview(m.map@[k]) } else { SVal::Null })),
        Value::Function(n, t) => SVal::Function(n@, match t { Some(b) => Some(Box::new(vview(*b))), None => None }),
        Value::Int(i) => SVal::Int(i as int),
        Value::UInt(u) => SVal::UInt(u as int),
        Value::Float(f) => SVal::Float(f),
        Value::String(s) => SVal::Str(s@),
        Value::Bytes(b) => SVal::Bytes(b@),
        Value::Bool(b) => SVal::Bool(b),
        Value::Null => SVal::Null,
    }
}
} // verus!
fn main() {}
