use vstd::prelude::*;
use vstd::std_specs::ops::*;
verus! {
pub struct W(pub i64);

impl DivSpecImpl<W> for W {
    open spec fn obeys_div_spec() -> bool { false }
    open spec fn div_req(self, rhs: W) -> bool { true }
    open spec fn div_spec(self, rhs: W) -> Option<i64> { None }
}
impl std::ops::Div<W> for W {
    type Output = Option<i64>;
    fn div(self, rhs: W) -> (res: Option<i64>)
        ensures rhs.0 == 0 ==> res is None,
    {
        self.0.checked_div(rhs.0)
    }
}
fn user(a: W, b: W) -> (r: Option<i64>)
    ensures b.0 == 0 ==> r is None
{
    a / b
}
fn t() {
    let q = 7i64.checked_div(-2);
    assert(q == Some(-3i64));
    let q2 = (-7i64).checked_div(2);
    assert(q2 == Some(-3i64));
    let r = (-7i64).checked_rem(2);
    assert(r == Some(-1i64));
    let r2 = (7i64).checked_rem(-2);
    assert(r2 == Some(1i64));
    let m = i64::MIN.checked_rem(-1);
    assert(m is None);
}
} // verus!
fn main() {}
