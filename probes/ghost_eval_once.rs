use vstd::prelude::*;
verus! {
pub uninterp spec fn r_spec(i: usize) -> Result<u64, u8>;
#[verifier::external_body]
fn resolve(i: usize) -> (r: Result<u64, u8>) ensures r == r_spec(i) { unimplemented!() }
#[verifier::external_body]
fn dyn_call(nargs: usize, Ghost(evald): Ghost<Seq<int>>) -> (r: Result<u64, u8>)
    requires forall|k: int| 0 <= k < nargs ==> !evald.contains(k)   // arguments handed over unevaluated
{ unimplemented!() }

pub open spec fn strictly_increasing(s: Seq<int>) -> bool { forall|i: int, j: int| 0 <= i < j < s.len() ==> s[i] < s[j] }

// shape of the real dispatch: args[0] resolved before looking at the name
fn call_defect(is_op: bool, nargs: usize) -> (r: Result<u64, u8>)
    requires nargs == 2
{
    let ghost mut evald: Seq<int> = Seq::empty();
    let left = resolve(0)?;
    proof { evald = evald.push(0); }
    if is_op {
        let right = resolve(1)?;
        proof { evald = evald.push(1); }
        assert(strictly_increasing(evald));
        return Ok(left + right / 2 - right / 2);
    }
    dyn_call(nargs, Ghost(evald))
}
fn call_fixed(is_op: bool, nargs: usize) -> (r: Result<u64, u8>)
    requires nargs == 2
{
    let ghost mut evald: Seq<int> = Seq::empty();
    if is_op {
        let left = resolve(0)?;
        proof { evald = evald.push(0); }
        let right = resolve(1)?;
        proof { evald = evald.push(1); }
        assert(strictly_increasing(evald));
        return Ok(left / 2 + right / 2);
    }
    dyn_call(nargs, Ghost(evald))
}
} // verus!
fn main() {}
