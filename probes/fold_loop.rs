use vstd::prelude::*;
verus! {
// reduced model of the comprehension loop: for item in items { if !cond(acc)? {break}; acc = step(acc, item)?; }
pub enum Err { E1, E2 }
pub type R = Result<i64, Err>;
pub uninterp spec fn cond_spec(acc: i64) -> R;
pub uninterp spec fn step_spec(acc: i64, item: i64) -> R;

#[verifier::external_body]
fn cond(acc: i64) -> (r: R) ensures r == cond_spec(acc) { unimplemented!() }
#[verifier::external_body]
fn step(acc: i64, item: i64) -> (r: R) ensures r == step_spec(acc, item) { unimplemented!() }

// spec fold: process items[i..] from accumulator acc; returns final accumulator or error
pub open spec fn fold(items: Seq<i64>, i: int, acc: i64) -> R
    decreases items.len() - i
{
    if i < 0 || i >= items.len() { Ok(acc) } else {
        match cond_spec(acc) {
            Err(e) => Err(e),
            Ok(c) => if c == 0 { Ok(acc) } else {
                match step_spec(acc, items[i]) {
                    Err(e) => Err(e),
                    Ok(a2) => fold(items, i + 1, a2),
                }
            }
        }
    }
}

fn run(items: &Vec<i64>, init: i64) -> (r: R)
    ensures r == fold(items@, 0, init)
{
    let mut acc = init;
    for item in it: items.iter()
        invariant fold(items@, it.index@ as int, acc) == fold(items@, 0, init), 0 <= it.index@ <= items@.len(),
        ensures fold(items@, 0, init) == Ok::<i64, Err>(acc),
    {
        if cond(acc)? == 0 {
            break;
        }
        acc = step(acc, *item)?;
    }
    Ok(acc)
}
} // verus!
fn main() {}
