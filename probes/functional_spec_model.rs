use vstd::prelude::*;
verus! {
pub enum E { Lit(i64), Div(Box<E>, Box<E>), And(Box<E>, Box<E>), Other(Box<E>) }
pub enum Err { DivZero, Host }
pub type R = Result<i64, Err>;

pub open spec fn truthy(v: i64) -> bool { v != 0 }
pub uninterp spec fn host_spec(e: E) -> R;
pub uninterp spec fn div_spec(a: i64, b: i64) -> i64;

pub open spec fn ev(e: E) -> R
    decreases e
{
    match e {
        E::Lit(v) => Ok(v),
        E::Other(x) => host_spec(*x),
        E::Div(a, b) => match ev(*a) {
            Err(x) => Err(x),
            Ok(va) => match ev(*b) {
                Err(x) => Err(x),
                Ok(vb) => if vb == 0 { Err(Err::DivZero) } else { Ok(div_spec(va, vb)) },
            }
        },
        E::And(a, b) => match ev(*a) {
            Err(x) => Err(x),
            Ok(va) => if !truthy(va) { Ok(0i64) } else {
                match ev(*b) {
                    Err(x) => Err(x),
                    Ok(vb) => Ok(if truthy(vb) { 1i64 } else { 0i64 }),
                }
            }
        },
    }
}

#[verifier::external_body]
fn host(e: &E) -> (r: R) ensures r == host_spec(*e) { unimplemented!() }
#[verifier::external_body]
fn div(a: i64, b: i64) -> (r: i64) requires b != 0 ensures r == div_spec(a, b) { unimplemented!() }

fn eval(e: &E) -> (r: R)
    ensures r == ev(*e)
    decreases e
{
    match e {
        E::Lit(v) => Ok(*v),
        E::Other(x) => host(x),
        E::Div(a, b) => {
            let va = eval(a)?;
            let vb = eval(b)?;
            if vb == 0 { Err(Err::DivZero) } else { Ok(div(va, vb)) }
        }
        E::And(a, b) => {
            let va = eval(a)?;
            if va == 0 { Ok(0) } else {
                let vb = eval(b)?;
                Ok(if vb != 0 { 1 } else { 0 })
            }
        }
    }
}

// property-level lemma: short circuit, any depth
proof fn lemma_and_short(a: E, b: E)
    requires ev(a) == Ok::<i64, Err>(0),
    ensures ev(E::And(Box::new(a), Box::new(b))) == Ok::<i64, Err>(0)
{
}
} // verus!
fn main() {}
