use vstd::prelude::*;
use std::sync::Arc;
use std::collections::HashMap;
use std::cmp::Ordering;
use std::convert::TryInto;
verus! {
pub struct Map { pub map: Arc<HashMap<Key, Value>> }
pub enum Key { Int(i64), Uint(u64), Bool(bool), String(Arc<String>) }
pub enum Value {
    List(Arc<Vec<Value>>),
    Map(Map),
    Function(Arc<String>, Option<Box<Value>>),
    Int(i64), UInt(u64), Float(f64), String(Arc<String>), Bytes(Arc<Vec<u8>>), Bool(bool), Null,
}

pub assume_specification<T, E>[Result::<T, E>::unwrap_or](r: Result<T, E>, d: T) -> (o: T)
    ensures o == (match r { Ok(v) => v, Err(_) => d });
pub assume_specification<T: Clone>[<T as ToOwned>::to_owned](a: &T) -> (o: T) ensures vstd::pervasive::cloned::<T>(*a, o);
pub mod ax {
    use super::*;
    #[verifier::external_body]
    pub broadcast proof fn axiom_i64_try_from_u64()
        ensures #[trigger] <i64 as vstd::std_specs::convert::TryFromSpec<u64>>::obeys_try_from_spec(),
            forall|k: u64| (#[trigger] <i64 as vstd::std_specs::convert::TryFromSpec<u64>>::try_from_spec(k)) is Ok <==> k <= i64::MAX as u64,
            forall|k: u64| k <= i64::MAX as u64 ==> (#[trigger] <i64 as vstd::std_specs::convert::TryFromSpec<u64>>::try_from_spec(k))->Ok_0 == k as i64,
    {}
}
broadcast use ax::axiom_i64_try_from_u64;
#[verifier::external_body] fn __eq_map(a: &Map, b: &Map) -> bool { a == b }
#[verifier::external_body] fn __eq_list(a: &Arc<Vec<Value>>, b: &Arc<Vec<Value>>) -> bool { a == b }
#[verifier::external_body] fn __eq_optbox(a: &Option<Box<Value>>, b: &Option<Box<Value>>) -> bool { a == b }
pub open spec fn is_num(v: Value) -> bool { v is Int || v is UInt || v is Float }
pub open spec fn same_kind(a: Value, b: Value) -> bool {
    (a is List && b is List) || (a is Map && b is Map) || (a is Function && b is Function) || (a is String && b is String)
    || (a is Bytes && b is Bytes) || (a is Bool && b is Bool) || (a is Null && b is Null)
}
impl vstd::std_specs::cmp::PartialEqSpecImpl for Value {
    open spec fn obeys_eq_spec() -> bool { false }
    open spec fn eq_spec(&self, other: &Value) -> bool { arbitrary() }
}
impl vstd::std_specs::cmp::PartialOrdSpecImpl for Value {
    open spec fn obeys_partial_cmp_spec() -> bool { false }
    open spec fn partial_cmp_spec(&self, other: &Value) -> Option<Ordering> { arbitrary() }
}
impl PartialEq for Value {
    fn eq(&self, other: &Self) -> (r: bool)
        ensures
            // [C09.eq.unrelated] values of unrelated types are unequal
            (!same_kind(*self, *other) && !(is_num(*self) && is_num(*other))) ==> !r,
            // [C09.eq.exact] exact on int/uint/bool/null
            match (*self, *other) {
                (Value::Int(a), Value::UInt(b)) => r == (a as int == b as int),
                (Value::UInt(a), Value::Int(b)) => r == (a as int == b as int),
                (Value::Int(a), Value::Int(b)) => r == (a == b),
                (Value::UInt(a), Value::UInt(b)) => r == (a == b),
                (Value::Bool(a), Value::Bool(b)) => r == (a == b),
                (Value::Null, Value::Null) => r,
                _ => true,
            },
    {
        match (self, other) {
            (Value::Map(a), Value::Map(b)) => __eq_map(a, b),
            (Value::List(a), Value::List(b)) => __eq_list(a, b),
            (Value::Function(a1, a2), Value::Function(b1, b2)) => a1 == b1 && __eq_optbox(a2, b2),
            (Value::Int(a), Value::Int(b)) => a == b,
            (Value::UInt(a), Value::UInt(b)) => a == b,
            (Value::Float(a), Value::Float(b)) => a == b,
            (Value::String(a), Value::String(b)) => a == b,
            (Value::Bytes(a), Value::Bytes(b)) => a == b,
            (Value::Bool(a), Value::Bool(b)) => a == b,
            (Value::Null, Value::Null) => true,

            // Allow different numeric types to be compared without explicit casting.
            (Value::Int(a), Value::UInt(b)) => a
                .to_owned()
                .try_into()
                .map(|a: u64| a == *b)
                .unwrap_or(false),
            (Value::Int(a), Value::Float(b)) => (*a as f64) == *b,
            (Value::UInt(a), Value::Int(b)) => a
                .to_owned()
                .try_into()
                .map(|a: i64| a == *b)
                .unwrap_or(false),
            (Value::UInt(a), Value::Float(b)) => (*a as f64) == *b,
            (Value::Float(a), Value::Int(b)) => *a == (*b as f64),
            (Value::Float(a), Value::UInt(b)) => *a == (*b as f64),
            (_, _) => false,
        }
    }
}

impl Eq for Value {}

impl PartialOrd for Value {
    fn partial_cmp(&self, other: &Self) -> (r: Option<Ordering>)
        ensures
            // [C09.cmp.unrelated] unrelated / unordered kinds are not orderable
            (!(is_num(*self) && is_num(*other)) && !(*self is String && *other is String) && !(*self is Bool && *other is Bool)
                && !(*self is Null && *other is Null)) ==> r is None,
            // [C09.cmp.exact] exact on int/uint
            match (*self, *other) {
                (Value::Int(a), Value::UInt(b)) => r == Some(if (a as int) < (b as int) { Ordering::Less } else if a as int == b as int { Ordering::Equal } else { Ordering::Greater }),
                (Value::UInt(a), Value::Int(b)) => r == Some(if (a as int) < (b as int) { Ordering::Less } else if a as int == b as int { Ordering::Equal } else { Ordering::Greater }),
                (Value::Int(a), Value::Int(b)) => r == Some(if a < b { Ordering::Less } else if a == b { Ordering::Equal } else { Ordering::Greater }),
                (Value::UInt(a), Value::UInt(b)) => r == Some(if a < b { Ordering::Less } else if a == b { Ordering::Equal } else { Ordering::Greater }),
                _ => true,
            },
    {
        match (self, other) {
            (Value::Int(a), Value::Int(b)) => Some(a.cmp(b)),
            (Value::UInt(a), Value::UInt(b)) => Some(a.cmp(b)),
            (Value::Float(a), Value::Float(b)) => a.partial_cmp(b),
            (Value::String(a), Value::String(b)) => Some(a.cmp(b)),
            (Value::Bool(a), Value::Bool(b)) => Some(a.cmp(b)),
            (Value::Null, Value::Null) => Some(Ordering::Equal),

            // Allow different numeric types to be compared without explicit casting.
            (Value::Int(a), Value::UInt(b)) => Some(
                a.to_owned()
                    .try_into()
                    .map(|a: u64| a.cmp(b))
                    // If the i64 doesn't fit into a u64 it must be less than 0.
                    .unwrap_or(Ordering::Less),
            ),
            (Value::Int(a), Value::Float(b)) => (*a as f64).partial_cmp(b),
            (Value::UInt(a), Value::Int(b)) => Some(
                a.to_owned()
                    .try_into()
                    .map(|a: i64| a.cmp(b))
                    // If the u64 doesn't fit into a i64 it must be greater than i64::MAX.
                    .unwrap_or(Ordering::Greater),
            ),
            (Value::UInt(a), Value::Float(b)) => (*a as f64).partial_cmp(b),
            (Value::Float(a), Value::Int(b)) => a.partial_cmp(&(*b as f64)),
            (Value::Float(a), Value::UInt(b)) => a.partial_cmp(&(*b as f64)),
            _ => None,
        }
    }
}


} // verus!
impl PartialEq for Map { fn eq(&self, o: &Self) -> bool { unimplemented!() } }
fn main() {}
