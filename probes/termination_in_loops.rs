use vstd::prelude::*;
verus! {
pub enum T { Leaf(u64), Node(Vec<T>), Bx(Box<T>, Box<T>) }

fn sum(t: &T) -> u64
    decreases t
{
    match t {
        T::Leaf(v) => *v,
        T::Bx(a, b) => {
            let mut acc = 0u64;
            let mut i = 0;
            while i < 3
                invariant t is Bx, t->Bx_0 == *a,
                decreases 3 - i
            {
                let x = sum(&*a);
                acc = if x > acc { x } else { acc };
                i += 1;
            }
            acc
        }
        T::Node(cs) => {
            let mut acc = 0u64;
            for c in it: cs.iter()
                invariant t is Node, t->Node_0 == *cs,
            {
                let x = sum(c);
                acc = if x > acc { x } else { acc };
            }
            acc
        }
    }
}
} // verus!
fn main() {}
