use vstd::prelude::*;
verus! {

pub mod chrono {
    use vstd::prelude::*;
    #[verifier::external_body]
    pub struct Duration { x: i64 }
    impl Duration {
        pub uninterp spec fn nanos(&self) -> int;  // exact nanosecond count
        #[verifier::external_body]
        pub fn num_nanoseconds(&self) -> (r: Option<i64>)
            ensures (i64::MIN <= self.nanos() <= i64::MAX) ==> r == Some(self.nanos() as i64),
                    !(i64::MIN <= self.nanos() <= i64::MAX) ==> r is None
        { unimplemented!() }
        #[verifier::external_body]
        pub fn num_seconds(&self) -> (r: i64) { unimplemented!() }
    }
}
use chrono::Duration;
const SECOND: u64 = 1_000_000_000;
const MILLISECOND: u64 = 1_000_000;
const MICROSECOND: u64 = 1_000;
pub uninterp spec fn str_of_bytes(b: Seq<u8>) -> Seq<char>;
#[verifier::external_body]
fn __lossy_owned(b: &[u8]) -> (s: String) ensures s@ == str_of_bytes(b@) { unimplemented!() }

pub open spec fn frac(u: nat, p: nat) -> Seq<u8> { if fd(u, p).len() > 0 { seq![46u8] + fd(u, p) } else { Seq::<u8>::empty() } }
pub open spec fn go_body(u: nat) -> Seq<u8> {
    if u < 1_000_000_000 {
        if u == 0 { seq![48u8, 115u8] }
        else if u < 1_000 { digits(u) + seq![110u8, 115u8] }
        else if u < 1_000_000 { digits(u / 1_000) + frac(u, 3) + seq![0xC2u8, 0xB5u8, 115u8] }
        else { digits(u / 1_000_000) + frac(u, 6) + seq![109u8, 115u8] }
    } else {
        let secs = u / 1_000_000_000;
        let s_part = digits(secs % 60) + frac(u, 9) + seq![115u8];
        let mins = secs / 60;
        if mins > 0 {
            let m_part = digits(mins % 60) + seq![109u8];
            let hours = mins / 60;
            if hours > 0 { digits(hours) + seq![104u8] + m_part + s_part } else { m_part + s_part }
        } else { s_part }
    }
}
pub open spec fn go_dur(n: int) -> Seq<u8> {
    if n < 0 { seq![45u8] + go_body((-n) as nat) } else { go_body(n as nat) }
}

pub open spec fn pow10(n: nat) -> nat decreases n { if n == 0 { 1 } else { 10 * pow10((n - 1) as nat) } }

// digits emitted by the fraction loop after i iterations (least significant first skipped while zero)
pub open spec fn fd(v0: nat, i: nat) -> Seq<u8>
    decreases i
{
    if i == 0 { Seq::empty() } else {
        let prev = fd(v0, (i - 1) as nat);
        let d = (v0 / pow10((i - 1) as nat)) % 10;
        if prev.len() > 0 || d != 0 { seq![(d + 48) as u8] + prev } else { Seq::empty() }
    }
}

proof fn lemma_pow10_step(v0: nat, i: nat)
    ensures (v0 / pow10(i)) / 10 == v0 / pow10(i + 1), pow10(i) > 0
    decreases i
{
    if i > 0 { lemma_pow10_step(v0, (i - 1) as nat); }
    assert(pow10(i + 1) == 10 * pow10(i));
    assert(pow10(i) > 0) by { if i > 0 { lemma_pow10_step(v0, (i-1) as nat); } }
    vstd::arithmetic::div_mod::lemma_div_denominator(v0 as int, pow10(i) as int, 10);
    assert(pow10(i) * 10 == 10 * pow10(i)) by(nonlinear_arith);
}

fn format_float(buf: &mut [u8], mut v: u64, prec: usize) -> (r: (usize, u64))
    requires old(buf).len() >= prec + 1, prec <= 9,
    ensures
        final(buf).len() == old(buf).len(),
        r.0 <= final(buf).len(),
        r.1 == v as nat / pow10(prec as nat),
        final(buf)@.subrange(r.0 as int, final(buf).len() as int)
            =~= (if fd(v as nat, prec as nat).len() > 0 { seq![46u8] + fd(v as nat, prec as nat) } else { Seq::<u8>::empty() }),
        final(buf)@.subrange(0, r.0 as int) =~= old(buf)@.subrange(0, r.0 as int),
{
    let ghost v0 = v as nat;
    let ghost len = buf.len();
    let mut w = buf.len();
    let mut print = false;
    assert(pow10(0) == 1);
    for _i in it: 0..prec 
        invariant
            buf.len() == len, len >= prec + 1, prec <= 9,
            v as nat == v0 / pow10(it.index@ as nat),
            print == (fd(v0, it.index@ as nat).len() > 0),
            fd(v0, it.index@ as nat).len() <= it.index@,
            w == len - fd(v0, it.index@ as nat).len(),
            buf@.subrange(w as int, len as int) =~= fd(v0, it.index@ as nat),
            buf@.subrange(0, w as int) =~= old(buf)@.subrange(0, w as int), old(buf).len() == len, w <= len,
    {
        proof { lemma_pow10_step(v0, it.index@ as nat); }
        let digit = v % 10;
        print = print || digit != 0;
        if print {
            w -= 1;
            buf[w] = digit as u8 + b'0';
        }
        v /= 10;
    }
    if print {
        w -= 1;
        buf[w] = b'.';
    }
    (w, v)
}

// decimal digits of v, most significant first; "0" for 0
pub open spec fn digits(v: nat) -> Seq<u8>
    decreases v
{
    if v < 10 { seq![(v + 48) as u8] } else { digits(v / 10) + seq![((v % 10) + 48) as u8] }
}
// digits of v with the empty sequence for 0 (loop form)
pub open spec fn digits0(v: nat) -> Seq<u8>
    decreases v
{
    if v == 0 { Seq::empty() } else { digits0(v / 10) + seq![((v % 10) + 48) as u8] }
}
proof fn lemma_digits0(v: nat)
    requires v > 0
    ensures digits0(v) =~= digits(v), digits0(v).len() <= 20 ==> true
    decreases v
{
    if v >= 10 { lemma_digits0(v / 10); } else { assert(digits0(v / 10) =~= Seq::<u8>::empty()); }
}
proof fn lemma_digits0_len(v: nat)
    requires v <= u64::MAX
    ensures digits0(v).len() <= 20
{
    // 2^64 < 10^20: unfold 20 times
    reveal_with_fuel(digits0, 22);
}

fn format_int(buf: &mut [u8], mut v: u64) -> (w: usize)
    requires old(buf).len() >= 20,
    ensures
        final(buf).len() == old(buf).len(),
        w < final(buf).len(),
        final(buf)@.subrange(w as int, final(buf).len() as int) =~= digits(v as nat),
        final(buf)@.subrange(0, w as int) =~= old(buf)@.subrange(0, w as int),
{
    let ghost v0 = v as nat;
    let ghost len = buf.len();
    let mut w = buf.len();
    if v == 0 {
        w -= 1;
        buf[w] = b'0';
    } else {
        proof { lemma_digits0_len(v0); lemma_digits0(v0); }
        while v > 0
            invariant
                buf.len() == len, old(buf).len() == len, len >= 20, w <= len,
                digits0(v0).len() <= 20,
                // already written suffix ++ what remains == digits0(v0)
                digits0(v as nat) + buf@.subrange(w as int, len as int) =~= digits0(v0),
                w == len - (digits0(v0).len() - digits0(v as nat).len()),
                buf@.subrange(0, w as int) =~= old(buf)@.subrange(0, w as int),
            decreases v
        {
            w -= 1;
            buf[w] = (v % 10) as u8 + b'0';
            v /= 10;
        }
    }
    w
}
pub fn format_duration(d: &Duration) -> (res: String)
    requires i64::MIN <= d.nanos() <= i64::MAX,
    ensures
        d.nanos() >= 0 ==> res@ == str_of_bytes(go_dur(d.nanos())),   // [C15.format.nonneg]
        d.nanos() < 0 ==> res@ == str_of_bytes(go_dur(d.nanos())),    // [C15.format.neg]
{
    let buf = &mut [0u8; 32];
    let mut w = buf.len();

    let mut neg = false;
    let mut u = match d.num_nanoseconds() {
        Some(n) => {
            if n < 0 {
                neg = true;
            }
            n as u64
        }
        None => {
            let s = d.num_seconds();
            if s < 0 {
                neg = true;
            }
            s as u64 * SECOND
        }
    };

    if u < SECOND {
        // Special case: if duration is smaller than a second,
        // use smaller units, like 1.2ms
        let mut _prec = 0;
        w -= 1;
        buf[w] = b's';
        w -= 1;

        if u == 0 {
            return "0s".to_string();
        } else if u < MICROSECOND {
            _prec = 0;
            buf[w] = b'n';
        } else if u < MILLISECOND {
            _prec = 3;
            // U+00B5 'µ' micro sign == 0xC2 0xB5
            buf[w] = 0xB5;
            w -= 1;
            buf[w] = 0xC2;
        } else {
            _prec = 6;
            buf[w] = b'm';
        }
        { let __t = format_float(&mut buf[..w], u, _prec); w = __t.0; u = __t.1; }
        w = format_int(&mut buf[..w], u);
    } else {
        w -= 1;
        buf[w] = b's';
        { let __t = format_float(&mut buf[..w], u, 9); w = __t.0; u = __t.1; }

        // u is now integer number of seconds
        w = format_int(&mut buf[..w], u % 60);
        u /= 60;

        // u is now integer number of minutes
        if u > 0 {
            w -= 1;
            buf[w] = b'm';
            w = format_int(&mut buf[..w], u % 60);
            u /= 60;

            // u is now integer number of hours
            if u > 0 {
                w -= 1;
                buf[w] = b'h';
                w = format_int(&mut buf[..w], u);
            }
        }
    }

    if neg {
        w -= 1;
        buf[w] = b'-';
    }
    __lossy_owned(&buf[w..])
}


} // verus!
fn main() {}
