use vstd::prelude::*;
use vstd::string::*;
verus! {
pub const A: &'static str = "_+_";
pub const B: &'static str = "_&&_";
#[verifier::external_body]
pub broadcast proof fn axiom_strslice_ext(a: &str, b: &str)
    ensures #![trigger a@, b@] (a@ =~= b@) ==> a == b
{}
pub open spec fn code(s: Seq<char>) -> int { if s == A@ { 1 } else if s == B@ { 2 } else { 0 } }
fn f(s: &String) -> (r: u8)
    ensures r as int == code(s@)
{
    broadcast use vstd::string::group_string_axioms;
    broadcast use axiom_strslice_ext;
    proof { reveal_strlit("_+_"); reveal_strlit("_&&_"); }
    match s.as_str() { A => 1, B => 2, _ => 0 }
}
} // verus!
fn main() {}
