#![feature(allocator_api)]
use vstd::prelude::*;
use std::rc::Rc;
verus! {
pub mod operators {
    pub const LOGICAL_NOT: &'static str = "!_";
}
pub enum Expr { Unspecified, Call(CallExpr), Ident(String) }
pub struct IdedExpr { pub id: u64, pub expr: Expr }
pub struct CallExpr { pub func_name: String, pub target: Option<Box<IdedExpr>>, pub args: Vec<IdedExpr> }
impl Default for IdedExpr { fn default() -> (r: Self) ensures r.expr is Unspecified { IdedExpr { id: 0, expr: Expr::Unspecified } } }

// ---- hand-declared stand-ins for ANTLR-generated types (assumed environment) ----
#[verifier::external_body] pub struct CommonToken { x: u8 }
#[verifier::external_body] pub struct MemberContextAll { x: u8 }
pub struct LogicalNotContext { pub ops: Vec<CommonToken>, pub m: Option<Rc<MemberContextAll>> }
impl LogicalNotContext {
    #[verifier::external_body] pub fn member(&self) -> (r: Option<Rc<MemberContextAll>>) ensures r == self.m { unimplemented!() }
    #[verifier::external_body] pub fn start(&self) -> CommonToken { unimplemented!() }
}
pub struct ParseError { pub msg: String }
pub struct ParserHelper { pub next_id: u64 }
impl ParserHelper {
    #[verifier::external_body] pub fn next_id(&mut self, token: &CommonToken) -> u64 { unimplemented!() }
}
pub struct Parser { pub helper: ParserHelper, pub errors: Vec<ParseError> }
pub uninterp spec fn visit_spec(node: MemberContextAll) -> Expr;   // AST (modulo ids) the visitor builds for a member subtree
pub open spec fn strip(e: IdedExpr) -> Expr { e.expr }           // prototype: ids ignored at the top node only
impl Parser {
    #[verifier::external_body]
    fn visit(&mut self, node: &MemberContextAll) -> (r: IdedExpr) ensures strip(r) == visit_spec(*node), final(self).errors@.len() >= old(self).errors@.len() { unimplemented!() }
    #[verifier::external_body]
    fn report_error<E, S>(&mut self, token: &CommonToken, e: Option<E>, s: S) -> (r: IdedExpr) ensures final(self).errors@.len() == old(self).errors@.len() + 1 { unimplemented!() }
    #[verifier::external_body]
    fn global_call_or_macro(&mut self, id: u64, func_name: String, args: Vec<IdedExpr>) -> (r: IdedExpr)
        ensures r.expr matches Expr::Call(c) && c.func_name == func_name && c.target is None && c.args == args
    { unimplemented!() }

    // ---- verbatim from antlr/src/parser.rs (visit_LogicalNot), trait-impl method turned into an inherent fn ----
    fn visit_LogicalNot(&mut self, ctx: &LogicalNotContext) -> (res: IdedExpr)
        requires ctx.ops@.len() >= 1,     // grammar: (ops+='!')+ member   (assumed, ANTLR)
        ensures
            // [C04.not.parity] an even run of `!` cancels, an odd run is one negation
            ctx.m is Some ==> (if ctx.ops@.len() % 2 == 0 { strip(res) == visit_spec(*ctx.m->Some_0) }
                else { res.expr matches Expr::Call(c) && c.func_name@ == operators::LOGICAL_NOT@ && c.args@.len() == 1 && strip(c.args@[0]) == visit_spec(*ctx.m->Some_0) }),
    {
        match &ctx.member() {
            None => {
                self.report_error::<ParseError, _>(&ctx.start(), None, "No `MemberContextAll`!");
                IdedExpr::default()
            }
            Some(member) => {
                if ctx.ops.len() % 2 == 0 {
                    self.visit((&**member));
                }
                let op_id = self.helper.next_id(&ctx.ops[0]);
                let target = self.visit((&**member));
                self.global_call_or_macro(op_id, operators::LOGICAL_NOT.to_string(), vec![target])
            }
        }
    }
}
} // verus!
fn main() {}
