use vstd::prelude::*;
use std::sync::Arc;
verus! {
pub enum Value { Int(i64), List(Arc<Vec<Value>>), Null }
impl Clone for Value { #[verifier::external_body] fn clone(&self) -> (r: Value) ensures r == *self { unimplemented!() } }
pub enum Expr { Ident(String), Other }
pub struct IdedExpr { pub id: u64, pub expr: Expr }
pub type Expression = IdedExpr;
pub struct Context<'a> { pub x: &'a u8 }
pub enum ExecutionError { UnexpectedType { got: String, want: String }, MissingArgumentOrTarget, InvalidArgumentCount { expected: usize, actual: usize } }
impl ExecutionError {
    pub fn missing_argument_or_target() -> Self { ExecutionError::MissingArgumentOrTarget }
    pub fn invalid_argument_count(expected: usize, actual: usize) -> Self { ExecutionError::InvalidArgumentCount { expected, actual } }
}
pub type ResolveResult = Result<Value, ExecutionError>;
pub struct FunctionContext<'context> {
    pub name: Arc<String>,
    pub this: Option<Value>,
    pub ptx: &'context Context<'context>,
    pub args: Vec<Expression>,
    pub arg_idx: usize,
}
impl<'context> FunctionContext<'context> {
    pub fn resolve<R>(&self, resolver: R) -> Result<Value, ExecutionError>
    where
        R: Resolver,
    {
        resolver.resolve(self)
    }
}
impl Value {
    pub uninterp spec fn resolve_spec(expr: Expression, ctx: Context) -> ResolveResult;
    #[verifier::external_body]
    pub fn resolve(expr: &Expression, ctx: &Context) -> (r: ResolveResult) ensures r == Self::resolve_spec(*expr, *ctx) { unimplemented!() }
}
pub trait Resolver {
    fn resolve(&self, ctx: &FunctionContext) -> ResolveResult;
}

impl Resolver for Expression {
    fn resolve(&self, ctx: &FunctionContext) -> ResolveResult {
        Value::resolve(self, ctx.ptx)
    }
}
pub(crate) struct Argument(pub usize);

impl Resolver for Argument {
    fn resolve(&self, ctx: &FunctionContext) -> ResolveResult {
        let index = self.0;
        let arg = ctx
            .args
            .get(index)
            .ok_or(ExecutionError::invalid_argument_count(
                index + 1,
                ctx.args.len(),
            ))?;
        Value::resolve(arg, ctx.ptx)
    }
}
pub(crate) struct AllArguments;

impl Resolver for AllArguments {
    fn resolve(&self, ctx: &FunctionContext) -> ResolveResult {
        let mut args = Vec::with_capacity(ctx.args.len());
        for arg in ctx.args.iter() {
            args.push(Value::resolve(arg, ctx.ptx)?);
        }
        Ok(Value::List(args.into()))
    }
}
trait FromValue {
    spec fn fv_spec(v: Value) -> Result<Self, ExecutionError> where Self: Sized;
    fn from_value(value: &Value) -> (r: Result<Self, ExecutionError>)
    where
        Self: Sized
        ensures r == Self::fv_spec(*value);
}

impl FromValue for Value {
    closed spec fn fv_spec(v: Value) -> Result<Self, ExecutionError> { Ok(v) }
    fn from_value(value: &Value) -> (r: Result<Self, ExecutionError>)
    where
        Self: Sized,
    {
        Ok(value.clone())
    }
}


pub(crate) trait FromContext<'a, 'context> {
    fn from_context(ctx: &'a mut FunctionContext<'context>) -> Result<Self, ExecutionError>
    where
        Self: Sized;
}


pub struct This<T>(pub T);

impl<'a, 'context, T> FromContext<'a, 'context> for This<T>
where
    T: FromValue,
{
    fn from_context(ctx: &'a mut FunctionContext<'context>) -> (res: Result<Self, ExecutionError>)
    where
        Self: Sized,
        ensures
            final(ctx).args == old(ctx).args, final(ctx).this == old(ctx).this,
            // [C20.this.receiver] receiver present: converted receiver, no argument consumed
            old(ctx).this is Some ==> (final(ctx).arg_idx == old(ctx).arg_idx
                && match T::fv_spec(old(ctx).this->Some_0) { Ok(t) => res matches Ok(This(x)) && x == t, Err(e) => res == Err::<Self, ExecutionError>(e) }),
            // [C20.this.first_arg] no receiver: first remaining argument, consumed
            (old(ctx).this is None && old(ctx).arg_idx < old(ctx).args@.len()) ==> (final(ctx).arg_idx == old(ctx).arg_idx + 1
                && match Value::resolve_spec(old(ctx).args@[old(ctx).arg_idx as int], *old(ctx).ptx) {
                    Ok(v) => match T::fv_spec(v) { Ok(t) => res matches Ok(This(x)) && x == t, Err(e) => res == Err::<Self, ExecutionError>(e) },
                    Err(_) => res == Err::<Self, ExecutionError>(ExecutionError::MissingArgumentOrTarget) }),
            (old(ctx).this is None && old(ctx).arg_idx >= old(ctx).args@.len()) ==> res == Err::<Self, ExecutionError>(ExecutionError::MissingArgumentOrTarget),
    {
        if let Some(ref this) = ctx.this {
            Ok(This(T::from_value(this)?))
        } else {
            let arg = arg_value_from_context(ctx)
                .map_err(|_e| ExecutionError::missing_argument_or_target())?;
            Ok(This(T::from_value(&arg)?))
        }
    }
}


pub struct Identifier(pub Arc<String>);

impl<'a, 'context> FromContext<'a, 'context> for Identifier {
    fn from_context(ctx: &'a mut FunctionContext<'context>) -> Result<Self, ExecutionError>
    where
        Self: Sized,
    {
        match &arg_expr_from_context(ctx).expr {
            Expr::Ident(ident) => Ok(Identifier(ident.clone().into())),
            expr => Err(ExecutionError::UnexpectedType {
                got: format!("{:?}", expr),
                want: "identifier".to_string(),
            }),
        }
    }
}


pub struct Arguments(pub Arc<Vec<Value>>);

impl<'a> FromContext<'a, '_> for Arguments {
    fn from_context(ctx: &'a mut FunctionContext) -> Result<Self, ExecutionError>
    where
        Self: Sized,
    {
        match ctx.resolve(AllArguments)? {
            Value::List(list) => Ok(Arguments(list.clone())),
            _ => todo!(),
        }
    }
}

impl<'a, 'context> FromContext<'a, 'context> for Value {
    fn from_context(ctx: &'a mut FunctionContext<'context>) -> Result<Self, ExecutionError>
    where
        Self: Sized,
    {
        arg_value_from_context(ctx)
    }
}

impl<'a, 'context> FromContext<'a, 'context> for Expression {
    fn from_context(ctx: &'a mut FunctionContext<'context>) -> Result<Self, ExecutionError>
    where
        Self: Sized,
    {
        Ok(arg_expr_from_context(ctx).clone())
    }
}
fn arg_expr_from_context<'a>(ctx: &'a mut FunctionContext) -> &'a Expression {
    let idx = ctx.arg_idx;
    ctx.arg_idx += 1;
    &ctx.args[idx]
}
fn arg_value_from_context(ctx: &mut FunctionContext) -> Result<Value, ExecutionError> {
    let idx = ctx.arg_idx;
    ctx.arg_idx += 1;
    ctx.resolve(Argument(idx))
}


} // verus!
impl Clone for IdedExpr { fn clone(&self) -> Self { unimplemented!() } }
impl std::fmt::Debug for Expr { fn fmt(&self, f: &mut std::fmt::Formatter<'_>) -> std::fmt::Result { unimplemented!() } }
fn main() {}
