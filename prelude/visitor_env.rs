// ---- hand-declared stand-ins for ANTLR-generated parse-tree types and the antlr4rust runtime (ASSUMED environment) ----
// Only what the prefix-operator visitors touch is declared.  `visit_spec` is the AST (modulo ids) that the visitor builds
// for a member subtree: an uninterpreted function, i.e. nothing about ANTLR's output is assumed beyond determinism.
use std::rc::Rc;
#[verifier::external_body] pub struct CommonToken { x: u8 }
#[verifier::external_body] pub struct MemberContextAll { x: u8 }
pub struct LogicalNotContext { pub ops: Vec<CommonToken>, pub m: Option<Rc<MemberContextAll>> }
impl LogicalNotContext {
    #[verifier::external_body] pub fn member(&self) -> (r: Option<Rc<MemberContextAll>>) ensures r == self.m { unimplemented!() }
    #[verifier::external_body] pub fn start(&self) -> CommonToken { unimplemented!() }
}
pub struct NegateContext { pub ops: Vec<CommonToken>, pub m: Option<Rc<MemberContextAll>> }
impl NegateContext {
    #[verifier::external_body] pub fn member(&self) -> (r: Option<Rc<MemberContextAll>>) ensures r == self.m { unimplemented!() }
    #[verifier::external_body] pub fn start(&self) -> CommonToken { unimplemented!() }
}
pub struct ParseError { pub msg: String }
pub struct ParserHelper { pub next_id: u64 }
impl ParserHelper {
    #[verifier::external_body] pub fn next_id(&mut self, token: &CommonToken) -> u64 { unimplemented!() }
}
pub struct Parser { pub helper: ParserHelper, pub errors: Vec<ParseError> }
pub uninterp spec fn visit_spec(node: MemberContextAll) -> Expr;
impl Default for IdedExpr { #[verifier::external_body] fn default() -> (r: Self) ensures r == (IdedExpr { id: 0, expr: Expr::Unspecified }) { unimplemented!() } }
impl Parser {
    #[verifier::external_body]
    fn visit(&mut self, node: &MemberContextAll) -> (r: IdedExpr) ensures r.expr == visit_spec(*node), final(self).errors@.len() >= old(self).errors@.len() { unimplemented!() }
    #[verifier::external_body]
    fn report_error<E, S>(&mut self, token: &CommonToken, e: Option<E>, s: S) -> (r: IdedExpr) { unimplemented!() }
    /// for the two prefix operators no macro applies (find_expander only knows has/all/exists/exists_one/map/filter): a plain call node
    #[verifier::external_body]
    fn global_call_or_macro(&mut self, id: u64, func_name: String, args: Vec<IdedExpr>) -> (r: IdedExpr)
        ensures r.expr matches Expr::Call(c) && c.func_name == func_name && c.target is None && c.args == args
    { unimplemented!() }
}
