// ---- shapes (property C10 link 1 / C04 "a macro call expands around, never into, its receiver and argument expressions") ----
pub open spec fn is_accu(e: IdedExpr) -> bool { e.expr matches Expr::Ident(n) && n@ == "@result"@ }
pub open spec fn is_call(e: IdedExpr, f: &'static str, n: int) -> bool { e.expr matches Expr::Call(c) && c.func_name@ == f@ && c.target is None && c.args@.len() == n }
pub open spec fn arg(e: IdedExpr, i: int) -> IdedExpr { e.expr->Call_0.args@[i] }
pub open spec fn is_int(e: IdedExpr, v: i64) -> bool { e.expr == Expr::Literal(Val::Int(v)) }
pub open spec fn is_bool(e: IdedExpr, v: bool) -> bool { e.expr == Expr::Literal(Val::Boolean(v)) }
pub open spec fn is_empty_list(e: IdedExpr) -> bool { e.expr matches Expr::List(l) && l.elements@.len() == 0 }
pub open spec fn is_list1(e: IdedExpr, x: IdedExpr) -> bool { e.expr matches Expr::List(l) && l.elements@.len() == 1 && l.elements@[0] == x }
