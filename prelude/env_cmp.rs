// ---- environment of Value::eq / Value::partial_cmp ----
// R16 wrappers: comparisons that std delegates to generic impls (recursion through them is rejected by Verus as a trait cycle)
// or that involve doubles / chrono.  Each body is the original expression; each contract is ASSUMED (std / IEEE / chrono).
/// `a == b` on `&Map` inside Value::eq: dispatches to `impl PartialEq for Map` (unit objects.map_eq, verified in group ops)
#[verifier::external_body] pub fn __eq_map(a: &Map, b: &Map) -> (r: bool)
    ensures r == veq(SVal::Map(amap(a.map@)), SVal::Map(amap(b.map@)))
{ unimplemented!() }
/// std `HashMap == HashMap` (ASSUMED): same length and every entry of one has an equal value (by Value::eq) under the same key in the other
#[verifier::external_body] pub fn __eq_hashmap(a: &HashMap<Key, Value>, b: &HashMap<Key, Value>) -> (r: bool)
    ensures r == veq(SVal::Map(amap(a@)), SVal::Map(amap(b@)))
{ unimplemented!() }
/// std `Vec == Vec` (slice comparison, ASSUMED): same length, element-wise Value::eq.  NOT `Arc == Arc`, which short-circuits on pointer identity
#[verifier::external_body] pub fn __eq_vec(a: &Vec<Value>, b: &Vec<Value>) -> (r: bool)
    ensures r == veq(SVal::List(vlist(a@)), SVal::List(vlist(b@)))
{ unimplemented!() }
#[verifier::external_body] pub fn __eq_optbox(a: &Option<Box<Value>>, b: &Option<Box<Value>>) -> (r: bool)
    ensures r == (match (*a, *b) { (Some(p), Some(q)) => veq(vview(*p), vview(*q)), (None, None) => true, _ => false })
{ unimplemented!() }
#[verifier::external_body] pub fn __eq_string(a: &Arc<String>, b: &Arc<String>) -> (r: bool) ensures r == (a@ == b@) { a == b }
#[verifier::external_body] pub fn __eq_bytes(a: &Arc<Vec<u8>>, b: &Arc<Vec<u8>>) -> (r: bool) ensures r == (a@ == b@) { a == b }
#[verifier::external_body] pub fn __f_nonzero(a: f64) -> (r: bool) ensures r == !f_is_zero(a) { a != 0.0 }
/// `bool::cmp`: false < true (std)
#[verifier::external_body] pub fn __cmp_bool(a: bool, b: bool) -> (r: Ordering)
    ensures r == (if a == b { Ordering::Equal } else if !a { Ordering::Less } else { Ordering::Greater }) { a.cmp(&b) }
#[verifier::external_body] pub fn __feq(a: f64, b: f64) -> (r: bool) ensures r == feq(a, b) { a == b }
#[verifier::external_body] pub fn __fcmp(a: f64, b: f64) -> (r: Option<Ordering>) ensures r == fcmp(a, b) { a.partial_cmp(&b) }
#[verifier::external_body] pub fn __eq_duration(a: &chrono::Duration, b: &chrono::Duration) -> (r: bool)
    ensures r == (chrono::dur_ns(*a) == chrono::dur_ns(*b)) { unimplemented!() }
#[verifier::external_body] pub fn __eq_timestamp(a: &chrono::DateTime<chrono::FixedOffset>, b: &chrono::DateTime<chrono::FixedOffset>) -> (r: bool)
    ensures r == (chrono::ts_ns(*a) == chrono::ts_ns(*b)) { unimplemented!() }
#[verifier::external_body] pub fn __cmp_duration(a: &chrono::Duration, b: &chrono::Duration) -> (r: Ordering)
    ensures r == int_cmp(chrono::dur_ns(*a), chrono::dur_ns(*b)) { unimplemented!() }
#[verifier::external_body] pub fn __cmp_timestamp(a: &chrono::DateTime<chrono::FixedOffset>, b: &chrono::DateTime<chrono::FixedOffset>) -> (r: Ordering)
    ensures r == int_cmp(chrono::ts_ns(*a), chrono::ts_ns(*b)) { unimplemented!() }
/// `String::cmp` is byte-wise lexicographic, which for UTF-8 is code-point order (ASSUMED std contract)
#[verifier::external_body] pub fn __str_cmp(a: &Arc<String>, b: &Arc<String>) -> (r: Ordering)
    ensures r == str_cmp(a@, b@) { a.cmp(b) }
pub assume_specification<T: Clone>[<T as ToOwned>::to_owned](a: &T) -> (o: T) ensures vstd::pervasive::cloned::<T>(*a, o);
pub assume_specification [std::cmp::Ordering::reverse] (o: Ordering) -> (r: Ordering) ensures Some(r) == rev_ord(Some(o));
