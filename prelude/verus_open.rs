verus! {
// `usize` is 64 bits wide (target assumption; Verus otherwise treats it as 32-or-64)
global size_of usize == 8;
//@include prelude/std_extra.rs
//@include prelude/std_str.rs
