// ---- environment of interpreter/src/ser.rs (property C17) ----
// serde stand-ins.  `Serialize` is the data-model side of the protocol: a value that can drive a serializer.  What it yields
// when driven through each of the three serializers of ser.rs is abstract (trait-level spec functions, no bodies): the
// contracts below are the INDUCTIVE STEP of "the CEL value has the shape of the data-model value" — each Serializer method
// maps its data-model node to the documented CEL shape, given the conversions of its children.  The induction itself (a
// `#[derive(Serialize)]` impl calls exactly the method of its node kind, children in order) is serde's protocol: ASSUMED.
pub trait Serialize {
    /// the result of `self.serialize(Serializer)`
    spec fn cel(&self) -> Result<Value>;
    /// the result of `self.serialize(KeySerializer)`
    spec fn cel_key(&self) -> Result<Key>;
    /// the result of `self.serialize(TimeSerializer::Duration | ::Timestamp)`
    spec fn cel_time(&self, which: TimeSerializer) -> Result<Value>;
}
/// serde: `impl<T: ?Sized + Serialize> Serialize for &T` forwards to `T`
impl<T: ?Sized + Serialize> Serialize for &T {
    open spec fn cel(&self) -> Result<Value> { (**self).cel() }
    open spec fn cel_key(&self) -> Result<Key> { (**self).cel_key() }
    open spec fn cel_time(&self, which: TimeSerializer) -> Result<Value> { (**self).cel_time(which) }
}
/// serde: `impl Serialize for str` calls `serialize_str`; with the contract of KeySerializer::serialize_str (proved in this group)
/// a `&str` key converts to the string key of the same characters (ASSUMED link, stated as an axiom)
impl Serialize for str {
    uninterp spec fn cel(&self) -> Result<Value>;
    uninterp spec fn cel_key(&self) -> Result<Key>;
    uninterp spec fn cel_time(&self, which: TimeSerializer) -> Result<Value>;
}
#[verifier::external_body]
pub proof fn axiom_str_cel_key(s: &str)
    ensures s.cel_key() matches Ok(Key::String(t)) && t@ == s@
{}
// R6 wrappers: driving a data-model value through one of the serializers (opaque calls into serde / the host type's impl)
#[verifier::external_body] pub fn __ser_value<T: ?Sized + Serialize>(v: &T) -> (r: Result<Value>) ensures r == v.cel() { unimplemented!() }
#[verifier::external_body] pub fn __ser_key<T: ?Sized + Serialize>(v: &T) -> (r: Result<Key>) ensures r == v.cel_key() { unimplemented!() }
#[verifier::external_body] pub fn __ser_time<T: ?Sized + Serialize>(v: &T, which: TimeSerializer) -> (r: Result<Value>) ensures r == v.cel_time(which) { unimplemented!() }
/// serde's `Impossible<Ok, Error>`: an uninhabited compound serializer
pub struct Impossible<O, E> { _o: core::marker::PhantomData<O>, _e: core::marker::PhantomData<E> }
// std text conversions (ASSUMED: same characters)
#[verifier::external_body] pub fn __str_eq(a: &str, b: &str) -> (r: bool) ensures r == (a@ == b@) { unimplemented!() }
#[verifier::external_body] pub fn __str_to_string(s: &str) -> (r: String) ensures r@ == s@ { unimplemented!() }
#[verifier::external_body] pub fn __char_to_string(c: char) -> (r: String) ensures r@ == seq![c] { unimplemented!() }
/// `f64::from(f32)`: exact widening (IEEE-754; bit-precise on the Kani side, harness c17_f32_becomes_double)
pub uninterp spec fn f32_widen(v: f32) -> f64;
#[verifier::external_body] pub fn __f64_from_f32(v: f32) -> (r: f64) ensures r == f32_widen(v) { unimplemented!() }
/// `<[u8]>::to_vec`
#[verifier::external_body] pub fn __bytes_to_vec(v: &[u8]) -> (r: Vec<u8>) ensures r@ == v@ { unimplemented!() }
/// `HashMap::from_iter([(k, v)])` (std: the map holding exactly that entry)
#[verifier::external_body] pub fn __hashmap_of_one<K, V>(k: K, v: V) -> (r: HashMap<K, V>)
    ensures r@ == vstd::map::Map::<K, V>::empty().insert(k, v) { unimplemented!() }
// `From<HashMap<K, V>> for Value` (objects.rs; generic over Into<Key> / Into<Value>, its loop consumes the HashMap by value:
// ASSUMED entry-wise) at the three instances ser.rs uses
#[verifier::external_body] pub fn __keymap_into_value(m: HashMap<Key, Value>) -> (r: Value)
    ensures r matches Value::Map(mm) && mm.map@ == m@ { unimplemented!() }
#[verifier::external_body] pub fn __strmap_into_value(m: HashMap<String, Value>) -> (r: Value)
    ensures r matches Value::Map(mm)
        && (forall|k: Key| #[trigger] mm.map@.contains_key(k) <==> (k matches Key::String(s) && m@.contains_key(*s)))
        && (forall|s: Arc<String>| m@.contains_key(*s) ==> #[trigger] mm.map@[Key::String(s)] == m@[*s]) { unimplemented!() }
#[verifier::external_body] pub fn __strlistmap_into_value(m: HashMap<String, Arc<Vec<Value>>>) -> (r: Value)
    ensures r matches Value::Map(mm)
        && (forall|k: Key| #[trigger] mm.map@.contains_key(k) <==> (k matches Key::String(s) && m@.contains_key(*s)))
        && (forall|s: Arc<String>| m@.contains_key(*s) ==> #[trigger] mm.map@[Key::String(s)] == Value::List(m@[*s])) { unimplemented!() }
// `From<chrono::Duration> for Value` / `From<DateTime<FixedOffset>> for Value` are generated in /repo by impl_conversions! (magic.rs,
// `$value_variant(value)`, verified instance by instance in group magic); hand-written stand-ins here
impl FromSpecImpl<chrono::Duration> for Value { open spec fn obeys_from_spec() -> bool { true } open spec fn from_spec(v: chrono::Duration) -> Value { Value::Duration(v) } }
impl From<chrono::Duration> for Value { fn from(v: chrono::Duration) -> Value { Value::Duration(v) } }
impl FromSpecImpl<chrono::DateTime<chrono::FixedOffset>> for Value { open spec fn obeys_from_spec() -> bool { true } open spec fn from_spec(v: chrono::DateTime<chrono::FixedOffset>) -> Value { Value::Timestamp(v) } }
impl From<chrono::DateTime<chrono::FixedOffset>> for Value { fn from(v: chrono::DateTime<chrono::FixedOffset>) -> Value { Value::Timestamp(v) } }
// ---- property C17: the shapes ----
/// the CEL string with exactly these characters
pub open spec fn is_str(v: Value, s: Seq<char>) -> bool { v matches Value::String(t) && t@ == s }
pub open spec fn is_key_str(k: Key, s: Seq<char>) -> bool { k matches Key::String(t) && t@ == s }
/// the single-entry map { name: v } (what a data-carrying enum variant becomes)
pub open spec fn single_entry(r: Value, name: Seq<char>, v: Value) -> bool {
    r matches Value::Map(m)
    && (forall|k: Key| #[trigger] m.map@.contains_key(k) <==> is_key_str(k, name))
    && (forall|k: Key| m.map@.contains_key(k) ==> #[trigger] m.map@[k] == v)
}
/// { name: [elems..] } and { name: {entries..} }
pub open spec fn single_entry_list(r: Value, name: Seq<char>, elems: Seq<Value>) -> bool {
    r matches Value::Map(m)
    && (forall|k: Key| #[trigger] m.map@.contains_key(k) <==> is_key_str(k, name))
    && (forall|k: Key| m.map@.contains_key(k) ==> (#[trigger] m.map@[k] matches Value::List(l) && l@ == elems))
}
pub open spec fn single_entry_map(r: Value, name: Seq<char>, entries: vstd::map::Map<Key, Value>) -> bool {
    r matches Value::Map(m)
    && (forall|k: Key| #[trigger] m.map@.contains_key(k) <==> is_key_str(k, name))
    && (forall|k: Key| m.map@.contains_key(k) ==> (#[trigger] m.map@[k] matches Value::Map(mm) && mm.map@ == entries))
}
