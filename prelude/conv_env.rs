// ---- environment of the conversion built-ins of interpreter/src/functions.rs (properties C13, C16, C14) ----
/// decimal text std prints for a number (`Display`), and what `str::parse` reads back (ASSUMED: std round-trips, see axiom_num_text)
pub uninterp spec fn dec_i64(n: int) -> Seq<char>;
pub uninterp spec fn dec_u64(n: int) -> Seq<char>;
pub uninterp spec fn f64_text(f: f64) -> Seq<char>;
/// UTF-8 encoding of a string (`str::as_bytes`), uninterpreted
pub uninterp spec fn utf8_enc(s: Seq<char>) -> Seq<u8>;
/// `f as i64` / `f as u64` / `n as f64` (Rust casts on doubles; bit-precise on the Kani side: c13_* harnesses)
pub uninterp spec fn f2i(f: f64) -> i64;
pub uninterp spec fn f2u(f: f64) -> u64;
pub uninterp spec fn in_i64_range(f: f64) -> bool;   // -2^63 <= f < 2^63 (false for NaN)
pub uninterp spec fn in_u64_range(f: f64) -> bool;   //     0 <= f < 2^64 (false for NaN)
pub uninterp spec fn i64_to_f64(n: i64) -> f64;
pub uninterp spec fn u64_to_f64(n: u64) -> f64;
#[verifier::external_body]
pub proof fn axiom_num_text()
    ensures
        forall|n: i64| chrono_text::parse_of::<i64>(#[trigger] dec_i64(n as int)) == Some(n),
        forall|n: u64| chrono_text::parse_of::<u64>(#[trigger] dec_u64(n as int)) == Some(n),
        forall|f: f64| !f64_is_nan(f) ==> chrono_text::parse_of::<f64>(#[trigger] f64_text(f)) == Some(f),
{}
pub trait NumText: Sized { spec fn text(self) -> Seq<char>; }
impl NumText for i64 { open spec fn text(self) -> Seq<char> { dec_i64(self as int) } }
impl NumText for u64 { open spec fn text(self) -> Seq<char> { dec_u64(self as int) } }
impl NumText for f64 { open spec fn text(self) -> Seq<char> { f64_text(self) } }
/// `v.to_string().into()` on a number (R6 wrapper)
#[verifier::external_body] pub fn __num_to_arc_string<T: NumText>(v: T) -> (r: Arc<String>) ensures r@ == v.text() { unimplemented!() }
/// `t.to_rfc3339().into()` / `format_duration(&v).into()` : String -> Arc<String>
#[verifier::external_body] pub fn __string_into_arc(s: String) -> (r: Arc<String>) ensures r@ == s@ { unimplemented!() }
/// `String::from_utf8_lossy(v.as_slice()).into()`
#[verifier::external_body] pub fn __lossy_into_string(b: &[u8]) -> (r: String) ensures r@ == str_of_bytes(b@) { unimplemented!() }
/// `value.as_bytes().to_vec().into()`
#[verifier::external_body] pub fn __utf8_into_arc(s: &Arc<String>) -> (r: Arc<Vec<u8>>) ensures r@ == utf8_enc(s@) { unimplemented!() }
/// the double range tests and casts of int() / uint() / double() (R6 wrappers around the real expressions; proved bit-precisely by Kani)
#[verifier::external_body] pub fn __in_i64_range(v: f64) -> (r: bool) ensures r == in_i64_range(v) { unimplemented!() }
#[verifier::external_body] pub fn __in_u64_range(v: f64) -> (r: bool) ensures r == in_u64_range(v) { unimplemented!() }
#[verifier::external_body] pub fn __f64_as_i64(v: f64) -> (r: i64) ensures r == f2i(v) { unimplemented!() }
#[verifier::external_body] pub fn __f64_as_u64(v: f64) -> (r: u64) ensures r == f2u(v) { unimplemented!() }
#[verifier::external_body] pub fn __i64_as_f64(v: i64) -> (r: f64) ensures r == i64_to_f64(v) { unimplemented!() }
#[verifier::external_body] pub fn __u64_as_f64(v: u64) -> (r: f64) ensures r == u64_to_f64(v) { unimplemented!() }
/// `ftx.error(..)`: a FunctionError (functions.rs FunctionContext::error -> lib.function_error, proved in group functions)
#[verifier::external_body] pub fn __ftx_error_dbg(ftx: &FunctionContext, v: &Value) -> (r: ExecutionError) ensures r is FunctionError { unimplemented!() }
#[verifier::external_body] pub fn __ftx_error_str(ftx: &FunctionContext, m: &str) -> (r: ExecutionError) ensures r is FunctionError { unimplemented!() }
#[verifier::external_body] pub fn __function_error(name: &str, m: String) -> (r: ExecutionError) ensures r is FunctionError { unimplemented!() }
pub mod duration {
    use super::*;
    /// interpreter/src/duration.rs format_duration: proved equal to go_dur in group duration; here its text is abstract
    pub uninterp spec fn dur_text(d: chrono::Duration) -> Seq<char>;
    #[verifier::external_body] pub fn format_duration(d: &chrono::Duration) -> (r: String) ensures r@ == dur_text(*d) { unimplemented!() }
}
#[verifier::external_body] pub fn __str_starts_with(s: &str, p: &str) -> (r: bool) ensures r == p@.is_prefix_of(s@) { unimplemented!() }
#[verifier::external_body] pub fn __str_ends_with(s: &str, p: &str) -> (r: bool) ensures r == p@.is_suffix_of(s@) { unimplemented!() }
pub open spec fn is_str(v: Value, s: Seq<char>) -> bool { v matches Value::String(t) && t@ == s }
