// ---- ASSUMED axioms about std types (each is one line of `assumptions` in the evidence) ----
pub mod ax {
    use super::*;
    /// `str` / `String` values are determined by their character sequence (needed because `match s.as_str() { CONST => ..}`
    /// is `str` equality and HashMap<String, _> keys are `String` values).  Stated through an inverse of the view, so that
    /// each string term instantiates it once (a two-trigger form `a@, b@` instantiates per PAIR of strings: measured 95% of
    /// all quantifier instantiations of the resolve proof).
    pub uninterp spec fn mk_str(s: Seq<char>) -> &'static str;
    pub uninterp spec fn mk_string(s: Seq<char>) -> String;
    #[verifier::external_body]
    pub broadcast proof fn axiom_strslice_ext(a: &str)
        ensures mk_str(#[trigger] a@) == a
    {}
    #[verifier::external_body]
    pub broadcast proof fn axiom_string_ext(a: String)
        ensures mk_string(#[trigger] a@) == a
    {}
    #[verifier::external_body]
    pub broadcast proof fn axiom_refstring_into_string()
        ensures #[trigger] <&String as IntoSpec<String>>::obeys_into_spec(),
                forall|s: &String| #[trigger] IntoSpec::<String>::into_spec(s) == *s,
    {}
    #[verifier::external_body]
    pub broadcast proof fn axiom_string_into_string()
        ensures #[trigger] <String as IntoSpec<String>>::obeys_into_spec(),
                forall|s: String| #[trigger] IntoSpec::<String>::into_spec(s) == s,
    {}
    #[verifier::external_body]
    pub broadcast proof fn axiom_str_into_string()
        ensures #[trigger] <&str as IntoSpec<String>>::obeys_into_spec(),
                forall|s: &str| (#[trigger] IntoSpec::<String>::into_spec(s))@ == s@,
    {}
    #[verifier::external_body]
    pub broadcast proof fn axiom_value_into_value()
        ensures #[trigger] <Value as IntoSpec<Value>>::obeys_into_spec(),
                forall|v: Value| #[trigger] IntoSpec::<Value>::into_spec(v) == v,
    {}
    /// a `Vec` of a non-zero-sized type never holds more than isize::MAX elements (allocation limit)
    #[verifier::external_body]
    pub broadcast proof fn axiom_vec_len_bound(v: Vec<Value>)
        ensures #[trigger] v@.len() <= isize::MAX
    {}
    #[verifier::external_body]
    pub broadcast proof fn axiom_i64_try_from_u64()
        ensures #[trigger] <i64 as vstd::std_specs::convert::TryFromSpec<u64>>::obeys_try_from_spec(),
            forall|k: u64| (#[trigger] <i64 as vstd::std_specs::convert::TryFromSpec<u64>>::try_from_spec(k)) is Ok <==> k <= i64::MAX as u64,
            forall|k: u64| k <= i64::MAX as u64 ==> (#[trigger] <i64 as vstd::std_specs::convert::TryFromSpec<u64>>::try_from_spec(k))->Ok_0 == k as i64,
    {}
}
/// derived `Hash`/`Eq` of `Key` and of `String` obey the HashMap key model (ASSUMED)
#[verifier::external_body]
pub proof fn axiom_key_model() ensures vstd::std_specs::hash::obeys_key_model::<Key>() {}
#[verifier::external_body]
pub proof fn axiom_string_key_model() ensures vstd::std_specs::hash::obeys_key_model::<String>() {}
pub open spec fn key_value(k: Key) -> Value {
    match k { Key::Int(v) => Value::Int(v), Key::Uint(v) => Value::UInt(v), Key::Bool(v) => Value::Bool(v), Key::String(v) => Value::String(v) }
}
pub open spec fn value_key(v: Value) -> Option<Key> {
    match v { Value::Int(i) => Some(Key::Int(i)), Value::UInt(u) => Some(Key::Uint(u)), Value::String(s) => Some(Key::String(s)), Value::Bool(b) => Some(Key::Bool(b)), _ => None }
}
/// Rust's `as usize` on a negative i64 wraps to a value >= 2^63 (proved by bit-vector reasoning)
pub proof fn lemma_neg_i64_as_usize()
    ensures forall|i: i64| i < 0 ==> (#[trigger] (i as usize)) >= 0x8000_0000_0000_0000usize
{
    assert(forall|i: i64| i < 0 ==> (#[trigger] (i as usize)) >= 0x8000_0000_0000_0000usize) by (bit_vector);
}
pub assume_specification<T>[<Arc<T> as From<T>>::from](t: T) -> (r: Arc<T>) ensures *r == t;
pub assume_specification[<Ordering as PartialEq>::eq](a: &Ordering, b: &Ordering) -> (r: bool) ensures r == (*a == *b);
// integer methods of std without a vstd specification (documented std behaviour, ASSUMED)
pub assume_specification [i64::checked_neg] (x: i64) -> (r: std::option::Option<i64>)
    ensures r == (if x == i64::MIN { None::<i64> } else { Some((0 - x) as i64) });
pub assume_specification [i64::unsigned_abs] (x: i64) -> (r: u64)
    ensures r as int == (if x < 0 { -(x as int) } else { x as int });
pub assume_specification [i64::checked_abs] (x: i64) -> (r: std::option::Option<i64>)
    ensures r == (if x == i64::MIN { None::<i64> } else { Some((if x < 0 { 0 - x } else { x as int }) as i64) });
pub assume_specification [i64::trailing_zeros] (x: i64) -> (r: u32) ensures r <= 64;
pub assume_specification [i64::leading_zeros] (x: i64) -> (r: u32) ensures r <= 64;
pub assume_specification [i64::signum] (x: i64) -> (r: i64) ensures r == (if x < 0 { -1i64 } else if x == 0 { 0i64 } else { 1i64 });
pub assume_specification [i64::is_negative] (x: i64) -> (r: bool) ensures r == (x < 0);
pub assume_specification [i64::is_positive] (x: i64) -> (r: bool) ensures r == (x > 0);
pub assume_specification [u64::is_power_of_two] (x: u64) -> (r: bool);
pub assume_specification [i64::saturating_add] (x: i64, y: i64) -> (r: i64)
    ensures r as int == (if x + y > i64::MAX { i64::MAX as int } else if x + y < i64::MIN { i64::MIN as int } else { x + y });
pub assume_specification [i64::saturating_sub] (x: i64, y: i64) -> (r: i64)
    ensures r as int == (if x - y > i64::MAX { i64::MAX as int } else if x - y < i64::MIN { i64::MIN as int } else { x - y });
pub assume_specification<T>[<Box<T> as From<T>>::from](t: T) -> (r: Box<T>) ensures *r == t;
// string byte lengths and byte-range slicing (std; a range that is out of bounds or not on a char boundary PANICS)
/// UTF-8 length of a code point / of a string (definition of the encoding; `String::len` is ASSUMED to return it)
pub open spec fn utf8_len(c: char) -> nat { if (c as u32) < 0x80 { 1 } else if (c as u32) < 0x800 { 2 } else if (c as u32) < 0x10000 { 3 } else { 4 } }
pub open spec fn str_byte_len(s: Seq<char>) -> nat
    decreases s.len()
{ if s.len() == 0 { 0 } else { str_byte_len(s.drop_last()) + utf8_len(s.last()) } }
pub proof fn lemma_str_byte_len_concat(a: Seq<char>, b: Seq<char>)
    ensures str_byte_len(a + b) == str_byte_len(a) + str_byte_len(b)
    decreases b.len()
{
    if b.len() == 0 { assert(a + b =~= a); }
    else {
        assert((a + b).drop_last() =~= a + b.drop_last());
        assert((a + b).last() == b.last());
        lemma_str_byte_len_concat(a, b.drop_last());
    }
}
pub uninterp spec fn is_char_boundary(s: Seq<char>, i: int) -> bool;
pub assume_specification[String::len](s: &String) -> (r: usize) ensures r == str_byte_len(s@);
