// ---- environment of the operator impls ----
#[verifier::external_body]
pub fn __arc_make_mut<T: Clone>(a: &mut Arc<T>) -> (r: &mut T)
    ensures *r == **old(a), *final(r) == **final(a)
{ Arc::make_mut(a) }
#[verifier::external_body]
pub fn __arc_get_mut<T>(a: &mut Arc<T>) -> (r: Option<&mut T>)
    ensures r is Some ==> (*r->Some_0 == **old(a) && *final(r->Some_0) == **final(a)),
            r is None ==> **final(a) == **old(a)
{ Arc::get_mut(a) }
#[verifier::external_body] pub fn __fadd(a: f64, b: f64) -> (r: f64) ensures r == fadd(a, b) { a + b }
#[verifier::external_body] pub fn __fsub(a: f64, b: f64) -> (r: f64) ensures r == fsub(a, b) { a - b }
#[verifier::external_body] pub fn __fmul(a: f64, b: f64) -> (r: f64) ensures r == fmul(a, b) { a * b }
#[verifier::external_body] pub fn __fdiv(a: f64, b: f64) -> (r: f64) ensures r == fdiv(a, b) { a / b }
#[verifier::external_body] pub fn __fneg(a: f64) -> (r: f64) ensures r == fneg(a) { -a }

// conversions used by the operator impls. `From<i64|u64|Duration|DateTime> for Value` are generated in /repo by the
// `impl_conversions!` macro (`$value_variant(value)`); they are represented here by hand-written stand-ins (ASSUMED).
impl FromSpecImpl<i64> for Value { open spec fn obeys_from_spec() -> bool { true } open spec fn from_spec(v: i64) -> Value { Value::Int(v) } }
impl From<i64> for Value { fn from(v: i64) -> Value { Value::Int(v) } }
impl FromSpecImpl<u64> for Value { open spec fn obeys_from_spec() -> bool { true } open spec fn from_spec(v: u64) -> Value { Value::UInt(v) } }
impl From<u64> for Value { fn from(v: u64) -> Value { Value::UInt(v) } }
impl FromSpecImpl<bool> for Value { open spec fn obeys_from_spec() -> bool { true } open spec fn from_spec(v: bool) -> Value { Value::Bool(v) } }
impl From<bool> for Value { fn from(v: bool) -> Value { Value::Bool(v) } }
impl FromSpecImpl<chrono::Duration> for Value { open spec fn obeys_from_spec() -> bool { true } open spec fn from_spec(v: chrono::Duration) -> Value { Value::Duration(v) } }
impl From<chrono::Duration> for Value { fn from(v: chrono::Duration) -> Value { Value::Duration(v) } }
impl FromSpecImpl<chrono::DateTime<chrono::FixedOffset>> for Value { open spec fn obeys_from_spec() -> bool { true } open spec fn from_spec(v: chrono::DateTime<chrono::FixedOffset>) -> Value { Value::Timestamp(v) } }
impl From<chrono::DateTime<chrono::FixedOffset>> for Value { fn from(v: chrono::DateTime<chrono::FixedOffset>) -> Value { Value::Timestamp(v) } }
impl FromSpecImpl<ExecutionError> for ResolveResult { open spec fn obeys_from_spec() -> bool { true } open spec fn from_spec(v: ExecutionError) -> ResolveResult { Err(v) } }
impl FromSpecImpl<Value> for ResolveResult { open spec fn obeys_from_spec() -> bool { true } open spec fn from_spec(v: Value) -> ResolveResult { Ok(v) } }
impl FromSpecImpl<Key> for Value { open spec fn obeys_from_spec() -> bool { true } open spec fn from_spec(v: Key) -> Value { key_value(v) } }
//@verify objects.from_key_for_value
impl<'a> FromSpecImpl<&'a Key> for Value { open spec fn obeys_from_spec() -> bool { true } open spec fn from_spec(v: &'a Key) -> Value { key_value(*v) } }
//@verify objects.from_keyref_for_value
impl FromSpecImpl<bool> for Key { open spec fn obeys_from_spec() -> bool { true } open spec fn from_spec(v: bool) -> Key { Key::Bool(v) } }
//@verify objects.from_bool_for_key
impl FromSpecImpl<i64> for Key { open spec fn obeys_from_spec() -> bool { true } open spec fn from_spec(v: i64) -> Key { Key::Int(v) } }
//@verify objects.from_i64_for_key
impl FromSpecImpl<u64> for Key { open spec fn obeys_from_spec() -> bool { true } open spec fn from_spec(v: u64) -> Key { Key::Uint(v) } }
//@verify objects.from_u64_for_key
impl FromSpecImpl<Arc<String>> for Key { open spec fn obeys_from_spec() -> bool { true } open spec fn from_spec(v: Arc<String>) -> Key { Key::String(v) } }
//@verify objects.from_arcstring_for_key
impl TryIntoSpecImpl<Key> for Value { open spec fn obeys_try_into_spec() -> bool { false } open spec fn try_into_spec(self) -> Result<Key, Value> { arbitrary() } }
//@verify objects.try_into_key_for_value
//@verify objects.from_value_for_result
//@verify objects.from_error_for_result
