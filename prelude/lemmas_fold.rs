// ---- property C10, link 3 (pure spec): a comprehension with the shape an expander produces computes the macro's defining fold ----
// The folds below are written from the property statement: elements in order, body evaluated with the iteration variable bound
// to the element, stop at the first deciding element, an error of the body on a reached element aborts.
pub open spec fn acc_true(env: Env, c: ComprehensionExpr) -> bool { alookup(env, c.accu_var) == Some(SVal::Bool(true)) }
pub open spec fn acc_false(env: Env, c: ComprehensionExpr) -> bool { alookup(env, c.accu_var) == Some(SVal::Bool(false)) }

pub open spec fn all_shape(c: ComprehensionExpr, body: IdedExpr) -> bool {
    c.accu_var@ == "@result"@ && c.iter_var@ != c.accu_var@
    && is_call(*c.loop_cond, operators::NOT_STRICTLY_FALSE, 1) && is_accu(arg(*c.loop_cond, 0))
    && is_call(*c.loop_step, operators::LOGICAL_AND, 2) && is_accu(arg(*c.loop_step, 0)) && arg(*c.loop_step, 1) == body
    && is_accu(*c.result)
}
/// `all`: conjunction of the body over items[i..], stopping at the first element whose body is not true
pub open spec fn all_from(c: ComprehensionExpr, body: IdedExpr, items: Seq<SVal>, i: int, env: Env, fs: Funcs) -> SRes
    decreases items.len() - i
{
    if i < 0 || i >= items.len() { Ok(SVal::Bool(true)) } else {
        let env1 = bind(env, c.iter_var, items[i]);
        match ev(body, env1, fs) {
            Err(x) => Err(x),
            Ok(b) => if !truthy(b) { Ok(SVal::Bool(false)) } else { all_from(c, body, items, i + 1, bind(env1, c.accu_var, SVal::Bool(true)), fs) },
        }
    }
}
pub open spec fn fold_result(c: ComprehensionExpr, items: Seq<SVal>, i: int, env: Env, fs: Funcs) -> SRes {
    match fold_list(c, items, i, env, fs) { Err(x) => Err(x), Ok(env2) => ev(*c.result, env2, fs) }
}
pub proof fn lemma_lookup_bind(env: Env, name: String, v: SVal, other: String)
    requires env.len() > 0
    ensures alookup(bind(env, name, v), name) == Some(v), other@ != name@ ==> alookup(bind(env, name, v), other) == alookup(env, other), bind(env, name, v).len() == env.len()
{
    broadcast use ax::axiom_string_ext;
    let e2 = bind(env, name, v);
    assert(e2.last().contains_key(name));
    assert(e2.drop_last() =~= env.drop_last());
    if other@ != name@ {
        assert(other != name);
        assert(e2.last().contains_key(other) == env.last().contains_key(other));
    }
}
pub proof fn lemma_accu_ident(e: IdedExpr, env: Env, fs: Funcs, c: ComprehensionExpr)
    requires is_accu(e), c.accu_var@ == "@result"@
    ensures ev(e, env, fs) == (match alookup(env, c.accu_var) { Some(sv) => Ok::<SVal, ErrClass>(sv), None => Err::<SVal, ErrClass>(ErrClass::Undeclared(c.accu_var@)) })
{
    broadcast use ax::axiom_string_ext;
    let n = e.expr->Ident_0;
    assert(n == c.accu_var);
}
/// the loop stops, with the accumulator unchanged, once the accumulator is false (`@not_strictly_false(@result)` is the condition)
pub proof fn lemma_all_stops(c: ComprehensionExpr, body: IdedExpr, items: Seq<SVal>, i: int, env: Env, fs: Funcs)
    requires all_shape(c, body), env.len() > 0, acc_false(env, c), 0 <= i
    ensures fold_result(c, items, i, env, fs) == Ok::<SVal, ErrClass>(SVal::Bool(false))
{
    lemma_operator_names();
    lemma_accu_ident(*c.result, env, fs, c);
    if i < items.len() {
        let cond = *c.loop_cond;
        lemma_accu_ident(arg(cond, 0), env, fs, c);
        let cc = cond.expr->Call_0;
        assert(is_op(cc, operators::NOT_STRICTLY_FALSE, 1));
        assert(ev(cond, env, fs) == Ok::<SVal, ErrClass>(SVal::Bool(false)));
        reveal(truthy);
    }
}
pub proof fn lemma_all_is_conjunction(c: ComprehensionExpr, body: IdedExpr, items: Seq<SVal>, i: int, env: Env, fs: Funcs)
    requires all_shape(c, body), env.len() > 0, acc_true(env, c), 0 <= i
    ensures fold_result(c, items, i, env, fs) == all_from(c, body, items, i, env, fs)
    decreases items.len() - i
{
    lemma_operator_names();
    reveal(truthy);
    lemma_accu_ident(*c.result, env, fs, c);
    if i < items.len() {
        let cond = *c.loop_cond; let step = *c.loop_step;
        lemma_accu_ident(arg(cond, 0), env, fs, c);
        assert(is_op(cond.expr->Call_0, operators::NOT_STRICTLY_FALSE, 1));
        assert(ev(cond, env, fs) == Ok::<SVal, ErrClass>(SVal::Bool(true)));
        let env1 = bind(env, c.iter_var, items[i]);
        lemma_lookup_bind(env, c.iter_var, items[i], c.accu_var);
        lemma_accu_ident(arg(step, 0), env1, fs, c);
        let sc = step.expr->Call_0;
        assert(is_op(sc, operators::LOGICAL_AND, 2));
        assert(!is_op(sc, operators::CONDITIONAL, 3));
        assert(ev(sc.args@[0], env1, fs) == Ok::<SVal, ErrClass>(SVal::Bool(true)));
        match ev(body, env1, fs) {
            Err(x) => { assert(ev(step, env1, fs) == Err::<SVal, ErrClass>(x)); }
            Ok(b) => {
                assert(ev(step, env1, fs) == Ok::<SVal, ErrClass>(SVal::Bool(truthy(b))));
                let env2 = bind(env1, c.accu_var, SVal::Bool(truthy(b)));
                lemma_lookup_bind(env1, c.accu_var, SVal::Bool(truthy(b)), c.iter_var);
                if truthy(b) { lemma_all_is_conjunction(c, body, items, i + 1, env2, fs); }
                else { lemma_all_stops(c, body, items, i + 1, env2, fs); }
            }
        }
    }
}

// ---- exists ----
pub open spec fn exists_shape(c: ComprehensionExpr, body: IdedExpr) -> bool {
    c.accu_var@ == "@result"@ && c.iter_var@ != c.accu_var@
    && is_call(*c.loop_cond, operators::NOT_STRICTLY_FALSE, 1) && is_call(arg(*c.loop_cond, 0), operators::LOGICAL_NOT, 1) && is_accu(arg(arg(*c.loop_cond, 0), 0))
    && is_call(*c.loop_step, operators::LOGICAL_OR, 2) && is_accu(arg(*c.loop_step, 0)) && arg(*c.loop_step, 1) == body
    && is_accu(*c.result)
}
/// the body is a predicate: whenever it yields a value, the value is a bool (C10 quantifies over predicate bodies)
pub open spec fn bool_body(body: IdedExpr, fs: Funcs) -> bool { forall|e: Env| (#[trigger] ev(body, e, fs)) matches Ok(v) ==> v is Bool }
/// `exists`: disjunction of the body over items[i..], stopping at the first element whose body is true
pub open spec fn exists_from(c: ComprehensionExpr, body: IdedExpr, items: Seq<SVal>, i: int, env: Env, fs: Funcs) -> SRes
    decreases items.len() - i
{
    if i < 0 || i >= items.len() { Ok(SVal::Bool(false)) } else {
        let env1 = bind(env, c.iter_var, items[i]);
        match ev(body, env1, fs) {
            Err(x) => Err(x),
            Ok(b) => if truthy(b) { Ok(SVal::Bool(true)) } else { exists_from(c, body, items, i + 1, bind(env1, c.accu_var, SVal::Bool(false)), fs) },
        }
    }
}
pub proof fn lemma_exists_cond(c: ComprehensionExpr, body: IdedExpr, env: Env, fs: Funcs, a: bool)
    requires exists_shape(c, body), alookup(env, c.accu_var) == Some(SVal::Bool(a))
    ensures ev(*c.loop_cond, env, fs) == Ok::<SVal, ErrClass>(SVal::Bool(!a))
{
    lemma_operator_names();
    reveal(truthy);
    let cond = *c.loop_cond; let inner = arg(cond, 0);
    lemma_accu_ident(arg(inner, 0), env, fs, c);
    assert(is_op(inner.expr->Call_0, operators::LOGICAL_NOT, 1));
    assert(ev(inner, env, fs) == Ok::<SVal, ErrClass>(SVal::Bool(!a)));
    assert(is_op(cond.expr->Call_0, operators::NOT_STRICTLY_FALSE, 1));
}
pub proof fn lemma_exists_stops(c: ComprehensionExpr, body: IdedExpr, items: Seq<SVal>, i: int, env: Env, fs: Funcs)
    requires exists_shape(c, body), env.len() > 0, acc_true(env, c), 0 <= i
    ensures fold_result(c, items, i, env, fs) == Ok::<SVal, ErrClass>(SVal::Bool(true))
{
    reveal(truthy);
    lemma_accu_ident(*c.result, env, fs, c);
    if i < items.len() { lemma_exists_cond(c, body, env, fs, true); }
}
pub proof fn lemma_exists_is_disjunction(c: ComprehensionExpr, body: IdedExpr, items: Seq<SVal>, i: int, env: Env, fs: Funcs)
    requires exists_shape(c, body), bool_body(body, fs), env.len() > 0, acc_false(env, c), 0 <= i
    ensures fold_result(c, items, i, env, fs) == exists_from(c, body, items, i, env, fs)
    decreases items.len() - i
{
    lemma_operator_names();
    reveal(truthy);
    lemma_accu_ident(*c.result, env, fs, c);
    if i < items.len() {
        let step = *c.loop_step;
        lemma_exists_cond(c, body, env, fs, false);
        let env1 = bind(env, c.iter_var, items[i]);
        lemma_lookup_bind(env, c.iter_var, items[i], c.accu_var);
        lemma_accu_ident(arg(step, 0), env1, fs, c);
        let sc = step.expr->Call_0;
        assert(is_op(sc, operators::LOGICAL_OR, 2));
        assert(!is_op(sc, operators::CONDITIONAL, 3) && !is_op(sc, operators::LOGICAL_AND, 2));
        assert(ev(sc.args@[0], env1, fs) == Ok::<SVal, ErrClass>(SVal::Bool(false)));
        match ev(body, env1, fs) {
            Err(x) => { assert(ev(step, env1, fs) == Err::<SVal, ErrClass>(x)); }
            Ok(b) => {
                assert(b is Bool);
                assert(ev(step, env1, fs) == Ok::<SVal, ErrClass>(b));
                let env2 = bind(env1, c.accu_var, b);
                lemma_lookup_bind(env1, c.accu_var, b, c.iter_var);
                if truthy(b) { assert(b == SVal::Bool(true)); lemma_exists_stops(c, body, items, i + 1, env2, fs); }
                else { assert(b == SVal::Bool(false)); lemma_exists_is_disjunction(c, body, items, i + 1, env2, fs); }
            }
        }
    }
}

// ---- exists_one ----
pub open spec fn exists_one_shape(c: ComprehensionExpr, body: IdedExpr) -> bool {
    c.accu_var@ == "@result"@ && c.iter_var@ != c.accu_var@
    && is_bool(*c.loop_cond, true)
    && is_call(*c.loop_step, operators::CONDITIONAL, 3) && arg(*c.loop_step, 0) == body
    && is_call(arg(*c.loop_step, 1), operators::ADD, 2) && is_accu(arg(arg(*c.loop_step, 1), 0)) && is_int(arg(arg(*c.loop_step, 1), 1), 1)
    && is_accu(arg(*c.loop_step, 2))
    && is_call(*c.result, operators::EQUALS, 2) && is_accu(arg(*c.result, 0)) && is_int(arg(*c.result, 1), 1)
}
/// `exists_one`: true iff exactly one element satisfies the body; every element is visited (there is no deciding element)
pub open spec fn exists_one_from(c: ComprehensionExpr, body: IdedExpr, items: Seq<SVal>, i: int, n: int, env: Env, fs: Funcs) -> SRes
    decreases items.len() - i
{
    if i < 0 || i >= items.len() { Ok(SVal::Bool(n == 1)) } else {
        let env1 = bind(env, c.iter_var, items[i]);
        match ev(body, env1, fs) {
            Err(x) => Err(x),
            Ok(b) => { let n2 = if truthy(b) { n + 1 } else { n }; exists_one_from(c, body, items, i + 1, n2, bind(env1, c.accu_var, SVal::Int(n2)), fs) },
        }
    }
}
pub proof fn lemma_exists_one_counts(c: ComprehensionExpr, body: IdedExpr, items: Seq<SVal>, i: int, n: int, env: Env, fs: Funcs)
    requires exists_one_shape(c, body), env.len() > 0, alookup(env, c.accu_var) == Some(SVal::Int(n)), 0 <= n <= i, items.len() < i64::MAX,
    ensures fold_result(c, items, i, env, fs) == exists_one_from(c, body, items, i, n, env, fs)
    decreases items.len() - i
{
    lemma_operator_names();
    reveal(truthy); reveal(add_spec); reveal_with_fuel(veq, 2);
    let res = *c.result;
    lemma_accu_ident(arg(res, 0), env, fs, c);
    let rc = res.expr->Call_0;
    assert(rc.args@.len() == 2 && binop_of(rc.func_name@) == Some(BinOp::Eq));
    assert(!is_op(rc, operators::CONDITIONAL, 3) && !is_op(rc, operators::LOGICAL_AND, 2) && !is_op(rc, operators::LOGICAL_OR, 2));
    assert(ev(rc.args@[1], env, fs) == Ok::<SVal, ErrClass>(SVal::Int(1)));
    assert(ev(res, env, fs) == Ok::<SVal, ErrClass>(SVal::Bool(n == 1)));
    if i < items.len() {
        let step = *c.loop_step;
        assert(ev(*c.loop_cond, env, fs) == Ok::<SVal, ErrClass>(SVal::Bool(true)));
        let env1 = bind(env, c.iter_var, items[i]);
        lemma_lookup_bind(env, c.iter_var, items[i], c.accu_var);
        let sc = step.expr->Call_0;
        assert(is_op(sc, operators::CONDITIONAL, 3));
        let plus = sc.args@[1]; let pc = plus.expr->Call_0;
        lemma_accu_ident(pc.args@[0], env1, fs, c);
        lemma_accu_ident(sc.args@[2], env1, fs, c);
        assert(pc.args@.len() == 2 && binop_of(pc.func_name@) == Some(BinOp::Add));
        assert(!is_op(pc, operators::CONDITIONAL, 3) && !is_op(pc, operators::LOGICAL_AND, 2) && !is_op(pc, operators::LOGICAL_OR, 2));
        assert(ev(pc.args@[1], env1, fs) == Ok::<SVal, ErrClass>(SVal::Int(1)));
        assert(ev(plus, env1, fs) == Ok::<SVal, ErrClass>(SVal::Int(n + 1)));
        match ev(body, env1, fs) {
            Err(x) => { assert(ev(step, env1, fs) == Err::<SVal, ErrClass>(x)); }
            Ok(b) => {
                let n2 = if truthy(b) { n + 1 } else { n };
                assert(ev(step, env1, fs) == Ok::<SVal, ErrClass>(SVal::Int(n2)));
                let env2 = bind(env1, c.accu_var, SVal::Int(n2));
                lemma_lookup_bind(env1, c.accu_var, SVal::Int(n2), c.iter_var);
                lemma_exists_one_counts(c, body, items, i + 1, n2, env2, fs);
            }
        }
    }
}

// ---- map (two-argument form) and filter ----
pub open spec fn map_shape(c: ComprehensionExpr, body: IdedExpr) -> bool {
    c.accu_var@ == "@result"@ && c.iter_var@ != c.accu_var@
    && is_bool(*c.loop_cond, true)
    && is_call(*c.loop_step, operators::ADD, 2) && is_accu(arg(*c.loop_step, 0)) && is_list1(arg(*c.loop_step, 1), body)
    && is_accu(*c.result)
}
/// `map`: the transformed elements, in order
pub open spec fn map_from(c: ComprehensionExpr, body: IdedExpr, items: Seq<SVal>, i: int, acc: Seq<SVal>, env: Env, fs: Funcs) -> SRes
    decreases items.len() - i
{
    if i < 0 || i >= items.len() { Ok(SVal::List(acc)) } else {
        let env1 = bind(env, c.iter_var, items[i]);
        match ev(body, env1, fs) {
            Err(x) => Err(x),
            Ok(v) => map_from(c, body, items, i + 1, acc.push(v), bind(env1, c.accu_var, SVal::List(acc.push(v))), fs),
        }
    }
}
pub proof fn lemma_list1(e: IdedExpr, x: IdedExpr, env: Env, fs: Funcs)
    requires is_list1(e, x)
    ensures ev(e, env, fs) == (match ev(x, env, fs) { Err(er) => Err::<SVal, ErrClass>(er), Ok(v) => Ok::<SVal, ErrClass>(SVal::List(seq![v])) })
{
    let l = e.expr->List_0;
    assert(ev_elems(l, 1, env, fs) == Ok::<Seq<SVal>, ErrClass>(Seq::<SVal>::empty())) by { reveal_with_fuel(ev_elems, 1); }
    assert(l.elements@[0] == x);
    assert(ev_elems(l, 0, env, fs) == (match ev(x, env, fs) { Err(er) => Err::<Seq<SVal>, ErrClass>(er), Ok(v) => Ok::<Seq<SVal>, ErrClass>(seq![v] + Seq::<SVal>::empty()) })) by { reveal_with_fuel(ev_elems, 2); }
    assert(ev(e, env, fs) == (match ev_elems(l, 0, env, fs) { Err(er) => Err::<SVal, ErrClass>(er), Ok(vs) => Ok::<SVal, ErrClass>(SVal::List(vs)) })) by { reveal_with_fuel(ev, 1); }
    match ev(x, env, fs) { Ok(v) => { assert(seq![v] + Seq::<SVal>::empty() =~= seq![v]); }, Err(_) => {} }
}
pub proof fn lemma_map_is_map(c: ComprehensionExpr, body: IdedExpr, items: Seq<SVal>, i: int, acc: Seq<SVal>, env: Env, fs: Funcs)
    requires map_shape(c, body), env.len() > 0, alookup(env, c.accu_var) == Some(SVal::List(acc)), 0 <= i
    ensures fold_result(c, items, i, env, fs) == map_from(c, body, items, i, acc, env, fs)
    decreases items.len() - i
{
    lemma_operator_names();
    reveal(truthy); reveal(add_spec);
    lemma_accu_ident(*c.result, env, fs, c);
    if i < items.len() {
        let step = *c.loop_step;
        assert(ev(*c.loop_cond, env, fs) == Ok::<SVal, ErrClass>(SVal::Bool(true)));
        let env1 = bind(env, c.iter_var, items[i]);
        lemma_lookup_bind(env, c.iter_var, items[i], c.accu_var);
        let sc = step.expr->Call_0;
        lemma_accu_ident(sc.args@[0], env1, fs, c);
        lemma_list1(sc.args@[1], body, env1, fs);
        assert(sc.args@.len() == 2 && binop_of(sc.func_name@) == Some(BinOp::Add));
        assert(!is_op(sc, operators::CONDITIONAL, 3) && !is_op(sc, operators::LOGICAL_AND, 2) && !is_op(sc, operators::LOGICAL_OR, 2));
        match ev(body, env1, fs) {
            Err(x) => { assert(ev(step, env1, fs) == Err::<SVal, ErrClass>(x)); }
            Ok(v) => {
                assert(acc + seq![v] =~= acc.push(v));
                assert(ev(step, env1, fs) == Ok::<SVal, ErrClass>(SVal::List(acc.push(v))));
                let env2 = bind(env1, c.accu_var, SVal::List(acc.push(v)));
                lemma_lookup_bind(env1, c.accu_var, SVal::List(acc.push(v)), c.iter_var);
                lemma_map_is_map(c, body, items, i + 1, acc.push(v), env2, fs);
            }
        }
    }
}
pub open spec fn filter_shape(c: ComprehensionExpr, pred: IdedExpr, var: IdedExpr) -> bool {
    c.accu_var@ == "@result"@ && c.iter_var@ != c.accu_var@ && (var.expr matches Expr::Ident(v) && v == c.iter_var)
    && is_bool(*c.loop_cond, true)
    && is_call(*c.loop_step, operators::CONDITIONAL, 3) && arg(*c.loop_step, 0) == pred
    && is_call(arg(*c.loop_step, 1), operators::ADD, 2) && is_accu(arg(arg(*c.loop_step, 1), 0)) && is_list1(arg(arg(*c.loop_step, 1), 1), var)
    && is_accu(arg(*c.loop_step, 2))
    && is_accu(*c.result)
}
/// `filter`: the satisfying elements, in order
pub open spec fn filter_from(c: ComprehensionExpr, pred: IdedExpr, items: Seq<SVal>, i: int, acc: Seq<SVal>, env: Env, fs: Funcs) -> SRes
    decreases items.len() - i
{
    if i < 0 || i >= items.len() { Ok(SVal::List(acc)) } else {
        let env1 = bind(env, c.iter_var, items[i]);
        match ev(pred, env1, fs) {
            Err(x) => Err(x),
            Ok(b) => { let acc2 = if truthy(b) { acc.push(items[i]) } else { acc };
                       filter_from(c, pred, items, i + 1, acc2, bind(env1, c.accu_var, SVal::List(acc2)), fs) },
        }
    }
}
pub proof fn lemma_filter_is_filter(c: ComprehensionExpr, pred: IdedExpr, var: IdedExpr, items: Seq<SVal>, i: int, acc: Seq<SVal>, env: Env, fs: Funcs)
    requires filter_shape(c, pred, var), env.len() > 0, alookup(env, c.accu_var) == Some(SVal::List(acc)), 0 <= i
    ensures fold_result(c, items, i, env, fs) == filter_from(c, pred, items, i, acc, env, fs)
    decreases items.len() - i
{
    lemma_operator_names();
    reveal(truthy); reveal(add_spec);
    lemma_accu_ident(*c.result, env, fs, c);
    if i < items.len() {
        let step = *c.loop_step;
        assert(ev(*c.loop_cond, env, fs) == Ok::<SVal, ErrClass>(SVal::Bool(true)));
        let env1 = bind(env, c.iter_var, items[i]);
        lemma_lookup_bind(env, c.iter_var, items[i], c.accu_var);
        let sc = step.expr->Call_0;
        assert(is_op(sc, operators::CONDITIONAL, 3));
        let plus = sc.args@[1]; let pc = plus.expr->Call_0;
        lemma_accu_ident(pc.args@[0], env1, fs, c);
        lemma_accu_ident(sc.args@[2], env1, fs, c);
        lemma_list1(pc.args@[1], var, env1, fs);
        assert(ev(var, env1, fs) == Ok::<SVal, ErrClass>(items[i]));
        assert(pc.args@.len() == 2 && binop_of(pc.func_name@) == Some(BinOp::Add));
        assert(!is_op(pc, operators::CONDITIONAL, 3) && !is_op(pc, operators::LOGICAL_AND, 2) && !is_op(pc, operators::LOGICAL_OR, 2));
        assert(acc + seq![items[i]] =~= acc.push(items[i]));
        assert(ev(plus, env1, fs) == Ok::<SVal, ErrClass>(SVal::List(acc.push(items[i]))));
        match ev(pred, env1, fs) {
            Err(x) => { assert(ev(step, env1, fs) == Err::<SVal, ErrClass>(x)); }
            Ok(b) => {
                let acc2 = if truthy(b) { acc.push(items[i]) } else { acc };
                assert(ev(step, env1, fs) == Ok::<SVal, ErrClass>(SVal::List(acc2)));
                let env2 = bind(env1, c.accu_var, SVal::List(acc2));
                lemma_lookup_bind(env1, c.accu_var, SVal::List(acc2), c.iter_var);
                lemma_filter_is_filter(c, pred, var, items, i + 1, acc2, env2, fs);
            }
        }
    }
}
