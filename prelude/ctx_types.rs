// ---- Context / FunctionContext: real type definitions + abstract views ----
/// stand-in for `pub type Function = Box<dyn Fn(&mut FunctionContext) -> ResolveResult + Send + Sync>` (magic.rs):
/// `dyn Fn` objects are outside the verifier's reach; a call through one is `__dyn_call` with the assumed `host_spec`.
#[verifier::external_body]
pub struct Function { f: Box<dyn for<'x, 'y> Fn(&'x mut FunctionContext<'y>) -> ResolveResult + Send + Sync> }
//@item interpreter/src/magic.rs :: struct FunctionRegistry [pubfields]
//@item interpreter/src/context.rs :: enum Context
//@item interpreter/src/functions.rs :: struct FunctionContext

