// ---- environment of antlr/src/macros.rs ----
pub use Val::{Boolean, Int};
/// stand-ins for the two fields of ParseError whose types are outside the verifier's reach (`Box<dyn Error>`, `Rc<SourceInfo>`);
/// the expanders only ever write `None` into them.  ParseError is re-declared with these field types (everything else as in parser.rs).
#[verifier::external_body] pub struct ErrSource { _p: u8 }
#[verifier::external_body] pub struct SourceInfoRc { _p: u8 }
pub struct ParseError {
    pub source: Option<ErrSource>,
    pub pos: (isize, isize),
    pub msg: String,
    pub expr_id: u64,
    pub source_info: Option<SourceInfoRc>,
}
/// stand-in for parser.rs MacroExprHelper (wraps the ANTLR-side ParserHelper): `next_expr` allocates a fresh id around the
/// given node (ASSUMED: the node is embedded unchanged), `pos_for` looks a position up
pub struct MacroExprHelper { pub id: u64 }
impl MacroExprHelper {
    #[verifier::external_body]
    pub fn next_expr(&mut self, expr: Expr) -> (r: IdedExpr) ensures r.expr == expr { unimplemented!() }
    #[verifier::external_body]
    pub(crate) fn pos_for(&self, id: u64) -> Option<(isize, isize)> { unimplemented!() }
}
pub mod axm {
    use super::*;
    #[verifier::external_body]
    pub broadcast proof fn axiom_box_from()
        ensures #[trigger] <IdedExpr as IntoSpec<Box<IdedExpr>>>::obeys_into_spec(),
                forall|e: IdedExpr| #[trigger] IntoSpec::<Box<IdedExpr>>::into_spec(e) == Box::new(e),
    {}
}
broadcast use {axm::axiom_box_from, vstd::string::group_string_axioms};
//@include prelude/fold_shapes.rs
/// the comprehension frame shared by all five fold macros: receiver embedded unchanged as the range, iteration variable = the identifier argument, accumulator `@result`
pub open spec fn comp_frame(res: Result<IdedExpr, ParseError>, target: Option<IdedExpr>, var: IdedExpr) -> bool {
    res is Ok ==> (var.expr matches Expr::Ident(v) && res->Ok_0.expr matches Expr::Comprehension(c)
        && *c.iter_range == target->Some_0 && c.iter_var == v && c.iter_var2 is None && c.accu_var@ == "@result"@)
}
pub open spec fn comp_of(res: Result<IdedExpr, ParseError>) -> ComprehensionExpr { res->Ok_0.expr->Comprehension_0 }
