// ---- the standard library of Context::default(): CEL name -> the function (of functions.rs) that implements it ----
// R30: a function item passed to add_function is represented by its name; what each function does is its own contract (groups functions,
// conv, time).  This table is written from the CEL documentation of the names (getDate = day of month from 1, getDayOfMonth from 0, ...).
pub uninterp spec fn registry_names(r: FunctionRegistry) -> vstd::map::Map<Seq<char>, Seq<char>>;
#[verifier::external_body] pub fn __empty_registry() -> (r: FunctionRegistry) ensures registry_names(r) == vstd::map::Map::<Seq<char>, Seq<char>>::empty() { unimplemented!() }
impl<'a> Context<'a> {
    /// Context::add_function (context.rs) -> FunctionRegistry::add (insert, replacing an existing name): contract-only
    #[verifier::external_body]
    pub fn add_function_named(&mut self, name: &str, function: &str)
        requires (*old(self)) is Root
        ensures (*final(self)) is Root, (*final(self))->Root_variables == (*old(self))->Root_variables,
            registry_names((*final(self))->Root_functions) == registry_names((*old(self))->Root_functions).insert(name@, function@)
    { unimplemented!() }
}
pub open spec fn std_registry() -> vstd::map::Map<Seq<char>, Seq<char>> {
    vstd::map::Map::<Seq<char>, Seq<char>>::empty()
        .insert("contains"@, "contains"@).insert("size"@, "size"@).insert("max"@, "max"@).insert("min"@, "min"@)
        .insert("startsWith"@, "starts_with"@).insert("endsWith"@, "ends_with"@)
        .insert("string"@, "string"@).insert("bytes"@, "bytes"@).insert("double"@, "double"@).insert("int"@, "int"@).insert("uint"@, "uint"@)
        .insert("matches"@, "matches"@).insert("duration"@, "duration"@).insert("timestamp"@, "timestamp"@)
        .insert("getFullYear"@, "timestamp_year"@).insert("getMonth"@, "timestamp_month"@).insert("getDayOfYear"@, "timestamp_year_day"@)
        .insert("getDayOfMonth"@, "timestamp_month_day"@).insert("getDate"@, "timestamp_date"@).insert("getDayOfWeek"@, "timestamp_weekday"@)
        .insert("getHours"@, "timestamp_hours"@).insert("getMinutes"@, "timestamp_minutes"@).insert("getSeconds"@, "timestamp_seconds"@)
        .insert("getMilliseconds"@, "timestamp_millis"@)
}
/// string literals are their characters (so distinct names are distinct keys)
pub proof fn lemma_std_registry_texts() ensures true { reveal_strlit("contains"); reveal_strlit("size"); reveal_strlit("max"); reveal_strlit("min"); reveal_strlit("startsWith"); reveal_strlit("endsWith"); reveal_strlit("string"); reveal_strlit("bytes"); reveal_strlit("double"); reveal_strlit("int"); reveal_strlit("uint"); reveal_strlit("matches"); reveal_strlit("duration"); reveal_strlit("timestamp"); reveal_strlit("getFullYear"); reveal_strlit("getMonth"); reveal_strlit("getDayOfYear"); reveal_strlit("getDayOfMonth"); reveal_strlit("getDate"); reveal_strlit("getDayOfWeek"); reveal_strlit("getHours"); reveal_strlit("getMinutes"); reveal_strlit("getSeconds"); reveal_strlit("getMilliseconds"); reveal_strlit("starts_with"); reveal_strlit("ends_with"); reveal_strlit("timestamp_year"); reveal_strlit("timestamp_month"); reveal_strlit("timestamp_year_day"); reveal_strlit("timestamp_month_day"); reveal_strlit("timestamp_date"); reveal_strlit("timestamp_weekday"); reveal_strlit("timestamp_hours"); reveal_strlit("timestamp_minutes"); reveal_strlit("timestamp_seconds"); reveal_strlit("timestamp_millis"); }
