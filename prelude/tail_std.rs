//@extras
} // verus!
// outside verus!: trait impls that only need to exist for type checking (bodies never run)
impl PartialEq for Key { fn eq(&self, o: &Self) -> bool { unimplemented!() } }
impl Eq for Key {}
impl std::hash::Hash for Key { fn hash<H: std::hash::Hasher>(&self, h: &mut H) { unimplemented!() } }
impl std::fmt::Display for Key { fn fmt(&self, f: &mut std::fmt::Formatter<'_>) -> std::fmt::Result { unimplemented!() } }
impl std::fmt::Debug for Value { fn fmt(&self, f: &mut std::fmt::Formatter<'_>) -> std::fmt::Result { unimplemented!() } }
impl std::fmt::Debug for ExecutionError { fn fmt(&self, f: &mut std::fmt::Formatter<'_>) -> std::fmt::Result { unimplemented!() } }
fn main() {}
