// ---- property C15, parsing half: which texts denote a duration ----
pub open spec fn unit_ns(u: Unit) -> int {
    match u { Unit::Nanosecond => 1, Unit::Microsecond => 1_000, Unit::Millisecond => 1_000_000, Unit::Second => 1_000_000_000,
              Unit::Minute => 60_000_000_000, Unit::Hour => 3_600_000_000_000 }
}
pub open spec fn starts2(t: Seq<char>, a: char, b: char) -> bool { t.len() >= 2 && t[0] == a && t[1] == b }
/// the unit a text starts with, and how many characters it takes: ms, us, ns, and the micro sign spellings the formatter prints (µs, U+00B5;
/// also μs, U+03BC, as Go accepts) before the one-letter units h, m, s
pub open spec fn unit_of(t: Seq<char>) -> Option<(Unit, int)> {
    if starts2(t, 'm', 's') { Some((Unit::Millisecond, 2)) } else if starts2(t, 'u', 's') { Some((Unit::Microsecond, 2)) }
    else if starts2(t, '\u{b5}', 's') { Some((Unit::Microsecond, 2)) } else if starts2(t, '\u{3bc}', 's') { Some((Unit::Microsecond, 2)) }
    else if starts2(t, 'n', 's') { Some((Unit::Nanosecond, 2)) }
    else if t.len() >= 1 && t[0] == 'h' { Some((Unit::Hour, 1)) } else if t.len() >= 1 && t[0] == 'm' { Some((Unit::Minute, 1)) }
    else if t.len() >= 1 && t[0] == 's' { Some((Unit::Second, 1)) } else { None }
}
/// digits and dots only: no sign, no exponent, not inf / nan
pub open spec fn plain_decimal(t: Seq<char>) -> bool { forall|k: int| 0 <= k < t.len() ==> ('0' <= #[trigger] t[k] && t[k] <= '9') || t[k] == '.' }
/// `(num * unit_ns as f64).trunc() as i64` (IEEE-754 product, truncation, saturating cast): uninterpreted here
pub uninterp spec fn scale_trunc(num: f64, unit_ns: int) -> i64;
/// one term `<decimal><unit>`: characters consumed and nanoseconds
pub open spec fn term_spec(i: Seq<char>) -> Option<(int, int)> {
    match nom::number::complete::nom_double(i) {
        Some(p) => if 0 < p.0 <= i.len() && plain_decimal(i.subrange(0, p.0)) {
                match unit_of(i.skip(p.0)) { Some(u) => Some((p.0 + u.1, scale_trunc(p.1, unit_ns(u.0)) as int)), None => None } } else { None },
        None => None,
    }
}
/// the maximal run of terms at the start of `i`: their nanosecond values in order, and the characters they take
pub open spec fn terms_seq(i: Seq<char>) -> Seq<int>
    decreases i.len()
{
    match term_spec(i) { Some(t) => if 0 < t.0 <= i.len() { seq![t.1] + terms_seq(i.skip(t.0)) } else { Seq::empty() }, None => Seq::empty() }
}
pub open spec fn terms_len(i: Seq<char>) -> int
    decreases i.len()
{
    match term_spec(i) { Some(t) => if 0 < t.0 <= i.len() { t.0 + terms_len(i.skip(t.0)) } else { 0 }, None => 0 }
}
pub open spec fn prefix_sum(ts: Seq<int>, k: int) -> int
    decreases k
{ if k <= 0 || k > ts.len() { 0 } else { prefix_sum(ts, k - 1) + ts[k - 1] } }
/// summing left to right never leaves chrono's range
pub open spec fn all_prefix_ok(ts: Seq<int>) -> bool { forall|k: int| 0 <= k <= ts.len() ==> chrono::dur_ok(#[trigger] prefix_sum(ts, k)) }
/// the duration text grammar: an optional '-', then the single character 0, or one or more terms whose running sum stays representable;
/// the sign negates the whole sum; what is left over after the last term is returned
pub open spec fn pd_spec(i: Seq<char>) -> Option<(Seq<char>, int)> {
    let neg = i.len() > 0 && i[0] == '-';
    let b = if neg { i.skip(1) } else { i };
    if b.len() == 1 && b[0] == '0' { Some((Seq::<char>::empty(), 0)) }
    else { let ts = terms_seq(b);
        if ts.len() == 0 || !all_prefix_ok(ts) { None } else { Some((b.skip(terms_len(b)), if neg { -prefix_sum(ts, ts.len() as int) } else { prefix_sum(ts, ts.len() as int) })) } }
}
pub proof fn lemma_terms_len_bound(i: Seq<char>)
    ensures 0 <= terms_len(i) <= i.len()
    decreases i.len()
{
    match term_spec(i) { Some(t) => { if 0 < t.0 <= i.len() { lemma_terms_len_bound(i.skip(t.0)); } }, None => {} }
}
pub proof fn lemma_prefix2(t: Seq<char>, a: char, b: char)
    ensures seq![a, b].is_prefix_of(t) <==> starts2(t, a, b)
{
    let p = seq![a, b];
    if p.is_prefix_of(t) { assert(t.subrange(0, 2) =~= p); assert(t.subrange(0, 2)[0] == t[0]); assert(t.subrange(0, 2)[1] == t[1]); assert(p[0] == a && p[1] == b); }
    if starts2(t, a, b) { assert(p =~= t.subrange(0, 2)); }
}
