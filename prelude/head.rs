#![feature(pattern)]
#![feature(allocator_api)]
#![allow(unused_imports, dead_code, unused_variables, unused_mut, non_snake_case, unreachable_code, unused_parens, unused_braces)]
use vstd::prelude::*;
use vstd::string::*;
use vstd::std_specs::convert::*;
use vstd::std_specs::ops::*;
use vstd::std_specs::cmp::*;
use std::sync::Arc;
use std::collections::HashMap;
use std::convert::{TryFrom, TryInto, Infallible};
use std::cmp::Ordering;
use std::ops::Deref;
use std::ops;
// opaque stand-ins for chrono's types (Copy, like the real ones); all behaviour is in prelude/chrono.rs as ASSUMED contracts
pub mod chrono_types {
    #[derive(Clone, Copy)] pub struct DateTime<Tz> { _p: std::marker::PhantomData<Tz> }
    #[derive(Clone, Copy)] pub struct FixedOffset { _p: i32 }
    #[derive(Clone, Copy)] pub struct Duration { _p: i64 }
    #[derive(Clone, Copy)] pub struct Utc;
    pub struct ParseError { _p: u8 }
    impl std::fmt::Display for ParseError { fn fmt(&self, f: &mut std::fmt::Formatter<'_>) -> std::fmt::Result { unimplemented!() } }
    impl std::str::FromStr for DateTime<FixedOffset> { type Err = ParseError; fn from_str(s: &str) -> Result<Self, ParseError> { unimplemented!() } }
    impl std::str::FromStr for DateTime<Utc> { type Err = ParseError; fn from_str(s: &str) -> Result<Self, ParseError> { unimplemented!() } }
}
