/// what an expansion does with the receiver and the arguments: `has` turns the selection it is given into a presence test of the same
/// selection; the fold macros put the receiver, unchanged, in range position and bind the identifier argument
pub open spec fn expands(k: MacroExpander, target: Option<IdedExpr>, args: Seq<IdedExpr>, r: Result<IdedExpr, ParseError>) -> bool {
    match k {
        MacroExpander::Has => match args[0].expr {
            Expr::Select(s) => r is Ok && r->Ok_0.expr == Expr::Select(SelectExpr { operand: s.operand, field: s.field, test: true }),
            _ => r is Err },
        _ => comp_frame(r, target, args[0]) && (r is Err <==> !(args[0].expr is Ident)),
    }
}
