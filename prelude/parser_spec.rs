//@include prelude/chain_spec.rs
pub assume_specification [usize::div_ceil] (a: usize, b: usize) -> (r: usize)
    requires b != 0
    ensures r as int == (a as int + b as int - 1) / (b as int);
pub assume_specification<T: Default> [core::mem::take::<T>] (dest: &mut T) -> (r: T)
    ensures r == *old(dest);
/// derived `Default` of IdedExpr (id 0, Expr::Unspecified): ASSUMED structural
impl Default for IdedExpr { #[verifier::external_body] fn default() -> (r: Self) ensures r == (IdedExpr { id: 0, expr: Expr::Unspecified }) { unimplemented!() } }
//@item antlr/src/parser.rs :: struct LogicManager
