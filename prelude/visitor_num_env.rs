// ---- numeric literals (property C13): what a NUM_INT / NUM_UINT / NUM_FLOAT token denotes, and std's integer parsers ----
/// `sign=MINUS? tok=NUM_INT` (CEL.g4): the text of the node is the optional sign followed by the token's text
pub struct IntContext { pub tok: Option<CommonToken>, pub sign: Option<CommonToken>, pub text: String }
pub open spec fn int_ctx_wf(c: IntContext) -> bool {
    c.tok is Some && c.text@ == (if c.sign is Some { seq!['-'] } else { Seq::<char>::empty() }) + tok_text(c.tok->Some_0)
}
impl IntContext { #[verifier::external_body] pub fn get_text(&self) -> (r: String) ensures r@ == self.text@ { unimplemented!() } }
pub struct UintContext { pub tok: Option<CommonToken>, pub text: String }
impl UintContext { #[verifier::external_body] pub fn get_text(&self) -> (r: String) ensures r@ == self.text@ { unimplemented!() } }
pub struct DoubleContext { pub tok: Option<CommonToken>, pub text: String }
impl DoubleContext { #[verifier::external_body] pub fn get_text(&self) -> (r: String) ensures r@ == self.text@ { unimplemented!() } }
/// value of one digit in the radix, of a non-empty run of digits (most significant first)
pub open spec fn digit_val(c: char, radix: int) -> Option<int> {
    if '0' <= c && c <= '9' && (c as int - 48) < radix { Some(c as int - 48) }
    else if radix == 16 && 'a' <= c && c <= 'f' { Some(c as int - 97 + 10) }
    else if radix == 16 && 'A' <= c && c <= 'F' { Some(c as int - 65 + 10) }
    else { None }
}
pub open spec fn digits_val(s: Seq<char>, radix: int) -> Option<int>
    decreases s.len()
{
    if s.len() == 0 { None }
    else if s.len() == 1 { digit_val(s[0], radix) }
    else { match (digits_val(s.drop_last(), radix), digit_val(s.last(), radix)) { (Some(a), Some(d)) => Some(a * radix + d), _ => None } }
}
/// std's integer grammar: an optional sign, then digits
pub open spec fn signed_val(s: Seq<char>, radix: int) -> Option<int> {
    if s.len() > 0 && s[0] == '-' { match digits_val(s.skip(1), radix) { Some(m) => Some(-m), None => None } }
    else if s.len() > 0 && s[0] == '+' { digits_val(s.skip(1), radix) }
    else { digits_val(s, radix) }
}
pub open spec fn i64_of(v: Option<int>) -> Option<i64> { match v { Some(n) => if i64::MIN <= n <= i64::MAX { Some(n as i64) } else { None }, None => None } }
pub open spec fn u64_of(v: Option<int>) -> Option<u64> { match v { Some(n) => if 0 <= n <= u64::MAX { Some(n as u64) } else { None }, None => None } }
/// `i64::from_str_radix` / `u64::from_str_radix` / `str::parse::<i64|u64>` (std documentation: sign and digits, range-checked; ASSUMED).
/// The unsigned parsers reject a leading '-'.
pub assume_specification[i64::from_str_radix](s: &str, radix: u32) -> (r: Result<i64, ParseIntError>)
    ensures match i64_of(signed_val(s@, radix as int)) { Some(n) => r is Ok && r->Ok_0 == n, None => r is Err };
pub assume_specification[u64::from_str_radix](s: &str, radix: u32) -> (r: Result<u64, ParseIntError>)
    ensures match (if s@.len() > 0 && s@[0] == '-' { None } else { u64_of(signed_val(s@, radix as int)) }) { Some(n) => r is Ok && r->Ok_0 == n, None => r is Err };
#[verifier::external_body]
pub proof fn axiom_parse_integers()
    ensures forall|s: Seq<char>| #[trigger] parse_spec::parse_of::<i64>(s) == i64_of(signed_val(s, 10)),
            forall|s: Seq<char>| #[trigger] parse_spec::parse_of::<u64>(s) == (if s.len() > 0 && s[0] == '-' { None } else { u64_of(signed_val(s, 10)) }),
{}
/// `str::strip_prefix(&str)` (std)
#[verifier::external_body] pub fn __strip_prefix<'a>(s: &'a str, p: &str) -> (r: Option<&'a str>)
    ensures match r { Some(rest) => p@.is_prefix_of(s@) && rest@ == s@.skip(p@.len() as int), None => !p@.is_prefix_of(s@) } { unimplemented!() }
/// `format!("-{hex}")`
#[verifier::external_body] pub fn __minus_prefixed(s: &str) -> (r: String) ensures r@ == seq!['-'] + s@ { unimplemented!() }
/// `string.truncate(string.len() - 1)` (std; byte-indexed: PANICS off a character boundary, so the last character must be one byte long)
#[verifier::external_body] pub fn __drop_last_ascii(s: &mut String)
    requires old(s)@.len() >= 1, (old(s)@.last() as u32) < 0x80
    ensures final(s)@ == old(s)@.drop_last() { unimplemented!() }
#[verifier::external_body] pub fn __f64_is_finite(d: f64) -> (r: bool) ensures r == f64_is_finite(d) { unimplemented!() }

// ---- the property: which number a literal token denotes (CEL.g4: `sign=MINUS? tok=NUM_INT`, NUM_INT = DIGIT+ | '0x' HEXDIGIT+) ----
pub open spec fn magnitude(b: Seq<char>) -> Option<int> {
    if b.len() >= 2 && b[0] == '0' && b[1] == 'x' { digits_val(b.skip(2), 16) } else { digits_val(b, 10) }
}
pub open spec fn int_lit_value(t: Seq<char>) -> Option<int> {
    if t.len() > 0 && t[0] == '-' { match magnitude(t.skip(1)) { Some(m) => Some(-m), None => None } } else { magnitude(t) }
}
/// NUM_UINT = NUM_INT [uU], never signed
pub open spec fn uint_lit_value(t: Seq<char>) -> Option<int> {
    if t.len() >= 2 && (t.last() == 'u' || t.last() == 'U') { magnitude(t.drop_last()) } else { None }
}
pub open spec fn lit_int_node(r: IdedExpr, errs0: int, errs1: int, want: Option<i64>) -> bool {
    match want { Some(w) => errs1 == errs0 && r.expr == Expr::Literal(Val::Int(w)), None => errs1 == errs0 + 1 }
}
pub open spec fn lit_uint_node(r: IdedExpr, errs0: int, errs1: int, want: Option<u64>) -> bool {
    match want { Some(w) => errs1 == errs0 && r.expr == Expr::Literal(Val::UInt(w)), None => errs1 == errs0 + 1 }
}
/// a run of digits does not start with a sign
pub proof fn lemma_digits_first(s: Seq<char>, radix: int)
    requires digits_val(s, radix) is Some
    ensures s.len() > 0, digit_val(s[0], radix) is Some, s[0] != '-', s[0] != '+'
    decreases s.len()
{
    if s.len() > 1 { lemma_digits_first(s.drop_last(), radix); assert(s.drop_last()[0] == s[0]); }
}
pub proof fn lemma_prefix2(t: Seq<char>, a: char, b: char)
    ensures seq![a, b].is_prefix_of(t) <==> (t.len() >= 2 && t[0] == a && t[1] == b)
{
    let p = seq![a, b];
    if p.is_prefix_of(t) { assert(t.subrange(0, 2) =~= p); assert(t.subrange(0, 2)[0] == t[0]); assert(t.subrange(0, 2)[1] == t[1]); assert(p[0] == a && p[1] == b); }
    if t.len() >= 2 && t[0] == a && t[1] == b { assert(p =~= t.subrange(0, 2)); }
}
pub proof fn lemma_prefix3(t: Seq<char>, a: char, b: char, c: char)
    ensures seq![a, b, c].is_prefix_of(t) <==> (t.len() >= 3 && t[0] == a && t[1] == b && t[2] == c)
{
    let p = seq![a, b, c];
    if p.is_prefix_of(t) { assert(t.subrange(0, 3) =~= p); assert(t.subrange(0, 3)[0] == t[0]); assert(t.subrange(0, 3)[1] == t[1]); assert(t.subrange(0, 3)[2] == t[2]); assert(p[0] == a && p[1] == b && p[2] == c); }
    if t.len() >= 3 && t[0] == a && t[1] == b && t[2] == c { assert(p =~= t.subrange(0, 3)); }
}
