// ---- environment of duration.rs ----
use crate::chrono::Duration;
/// `String::from_utf8_lossy(bytes).into_owned()` (R6 wrapper): UTF-8 decoding is std's (ASSUMED faithful on valid UTF-8)
#[verifier::external_body]
pub fn __lossy_owned(b: &[u8]) -> (s: String) ensures s@ == str_of_bytes(b@) { unimplemented!() }
pub open spec fn in_i64(x: int) -> bool { i64::MIN <= x <= i64::MAX }
pub assume_specification [i64::unsigned_abs] (x: i64) -> (r: u64)
    ensures r as int == (if x < 0 { -(x as int) } else { x as int });
/// UTF-8 decoding of the ASCII bytes "0s" (ASSUMED)
#[verifier::external_body]
pub proof fn axiom_str_of_bytes_0s() ensures str_of_bytes(seq![48u8, 115u8]) == "0s"@ {}
