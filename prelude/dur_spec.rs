// ---- property C15: canonical Go rendering of a duration (time.Duration.String), as a spec over nanosecond counts ----
pub const SECOND: u64 = 1_000_000_000;
pub const MILLISECOND: u64 = 1_000_000;
pub const MICROSECOND: u64 = 1_000;
pub open spec fn pow10(n: nat) -> nat decreases n { if n == 0 { 1 } else { 10 * pow10((n - 1) as nat) } }
/// fraction digits of v (its `i` low decimal digits), trailing zeros trimmed, most significant first
pub open spec fn fd(v0: nat, i: nat) -> Seq<u8>
    decreases i
{
    if i == 0 { Seq::empty() } else {
        let prev = fd(v0, (i - 1) as nat);
        let d = (v0 / pow10((i - 1) as nat)) % 10;
        if prev.len() > 0 || d != 0 { seq![(d + 48) as u8] + prev } else { Seq::empty() }
    }
}
pub open spec fn frac(u: nat, p: nat) -> Seq<u8> { if fd(u, p).len() > 0 { seq![46u8] + fd(u, p) } else { Seq::<u8>::empty() } }
/// decimal digits of v, most significant first; "0" for 0
pub open spec fn digits(v: nat) -> Seq<u8>
    decreases v
{
    if v < 10 { seq![(v + 48) as u8] } else { digits(v / 10) + seq![((v % 10) + 48) as u8] }
}
/// digits of v with the empty sequence for 0 (loop form)
pub open spec fn digits0(v: nat) -> Seq<u8>
    decreases v
{
    if v == 0 { Seq::empty() } else { digits0(v / 10) + seq![((v % 10) + 48) as u8] }
}
pub open spec fn go_body(u: nat) -> Seq<u8> {
    if u < 1_000_000_000 {
        if u == 0 { seq![48u8, 115u8] }                                                        // "0s"
        else if u < 1_000 { digits(u) + seq![110u8, 115u8] }                                   // "ns"
        else if u < 1_000_000 { digits(u / 1_000) + frac(u, 3) + seq![0xC2u8, 0xB5u8, 115u8] }  // "µs"
        else { digits(u / 1_000_000) + frac(u, 6) + seq![109u8, 115u8] }                       // "ms"
    } else {
        let secs = u / 1_000_000_000;
        let s_part = digits(secs % 60) + frac(u, 9) + seq![115u8];
        let mins = secs / 60;
        if mins > 0 {
            let m_part = digits(mins % 60) + seq![109u8];
            let hours = mins / 60;
            if hours > 0 { digits(hours) + seq![104u8] + m_part + s_part } else { m_part + s_part }
        } else { s_part }
    }
}
pub open spec fn go_dur(n: int) -> Seq<u8> {
    if n < 0 { seq![45u8] + go_body((-n) as nat) } else { go_body(n as nat) }
}
/// UTF-8 decoding of a byte string (std's String::from_utf8_lossy on valid UTF-8): dependency, uninterpreted
pub uninterp spec fn str_of_bytes(b: Seq<u8>) -> Seq<char>;

pub proof fn lemma_pow10_step(v0: nat, i: nat)
    ensures (v0 / pow10(i)) / 10 == v0 / pow10(i + 1), pow10(i) > 0
    decreases i
{
    if i > 0 { lemma_pow10_step(v0, (i - 1) as nat); }
    assert(pow10(i + 1) == 10 * pow10(i));
    assert(pow10(i) > 0) by { if i > 0 { lemma_pow10_step(v0, (i-1) as nat); } }
    vstd::arithmetic::div_mod::lemma_div_denominator(v0 as int, pow10(i) as int, 10);
    assert(pow10(i) * 10 == 10 * pow10(i)) by(nonlinear_arith);
}
pub proof fn lemma_digits0(v: nat)
    requires v > 0
    ensures digits0(v) =~= digits(v)
    decreases v
{
    if v >= 10 { lemma_digits0(v / 10); } else { assert(digits0(v / 10) =~= Seq::<u8>::empty()); }
}
/// number of decimal digits: v < 10^k ==> at most k digits
pub proof fn lemma_digits0_len(v: nat, k: nat)
    requires v < pow10(k)
    ensures digits0(v).len() <= k
    decreases k
{
    if v == 0 { } else {
        assert(k > 0) by { if k == 0 { assert(pow10(0) == 1); } }
        assert(pow10(k) == 10 * pow10((k - 1) as nat));
        assert(v / 10 < pow10((k - 1) as nat));
        lemma_digits0_len(v / 10, (k - 1) as nat);
    }
}
pub proof fn lemma_pow10_values()
    ensures pow10(0) == 1, pow10(1) == 10, pow10(2) == 100, pow10(3) == 1000, pow10(6) == 1000000, pow10(9) == 1000000000,
            pow10(20) == 100000000000000000000
{
    reveal_with_fuel(pow10, 22);
}
pub proof fn lemma_fd_len(v: nat, i: nat)
    ensures fd(v, i).len() <= i
    decreases i
{
    if i > 0 { lemma_fd_len(v, (i - 1) as nat); }
}
pub proof fn lemma_digits_len(v: nat, k: nat)
    requires v < pow10(k), k >= 1
    ensures 1 <= digits(v).len() <= k, digits0(v).len() <= k, v > 0 ==> digits0(v) =~= digits(v), v == 0 ==> digits(v).len() == 1
{
    lemma_digits0_len(v, k);
    if v > 0 { lemma_digits0(v); }
}
