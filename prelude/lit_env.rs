// ---- environment of antlr/src/parse.rs (literal decoders) ----
// `std::str::Chars` / `std::iter::Enumerate` stand-ins: an iterator over the characters of a string is modelled by the
// sequence of characters not yet produced (`rest`) and the count already produced (`pos`).  ASSUMED: `str::chars().enumerate()`
// yields exactly the characters of the string, in order, numbered from 0 (std contract).
#[verifier::external_body]
pub struct Chars<'a> { _p: &'a str }
#[verifier::external_body]
#[verifier::reject_recursive_types(I)]
pub struct Enumerate<I> { _p: I }
impl<'a> Enumerate<Chars<'a>> {
    pub uninterp spec fn rest(&self) -> Seq<char>;
    pub uninterp spec fn pos(&self) -> nat;
    #[verifier::external_body]
    pub fn next(&mut self) -> (r: Option<(usize, char)>)
        ensures match r {
            Some(p) => old(self).rest().len() > 0 && p.1 == old(self).rest()[0] && p.0 == old(self).pos()
                && final(self).rest() == old(self).rest().skip(1) && final(self).pos() == old(self).pos() + 1,
            None => old(self).rest().len() == 0 && final(self).rest() == old(self).rest() && final(self).pos() == old(self).pos() }
    { unimplemented!() }
}
/// `s.chars().enumerate()` (R6 wrapper)
#[verifier::external_body]
pub fn __chars_enumerate<'a>(s: &'a str) -> (r: Enumerate<Chars<'a>>) ensures r.rest() == s@, r.pos() == 0 { unimplemented!() }
/// `String::with_capacity(s.len())` (R6 wrapper): an empty string
#[verifier::external_body]
pub fn __string_with_capacity(s: &str) -> (r: String) ensures r@ == Seq::<char>::empty() { unimplemented!() }
#[verifier::external_type_specification]
#[verifier::external_body]
pub struct ExParseIntError(std::num::ParseIntError);
// error payloads (Display / Clone of the pieces; their text is not part of any contract)
#[verifier::external_body] pub fn __fmt1(c: char) -> String { unimplemented!() }
#[verifier::external_body] pub fn __fmt2(c: char, c2: char) -> String { unimplemented!() }
#[verifier::external_body] pub fn __fmt_bs(n: char) -> String { unimplemented!() }
#[verifier::external_body] pub fn __string_from(s: &str) -> String { unimplemented!() }
#[verifier::external_body] pub fn __clone_pue(x: &ParseUnicodeError) -> ParseUnicodeError { unimplemented!() }
/// parse_unicode_hex (antlr/src/parse.rs; `chars.take(length).map(..).collect()`, `u32::from_str_radix`, `char::from_u32`:
/// iterator adapters and std parsing are out of the verifier's reach).  ASSUMED contract, at the instance used by the callers:
/// consumes the next `length` characters (fewer at the end of input); when these are `length` hex digits the result is the
/// character with that code point, or an error when the value is not a Unicode scalar value.  Nothing is assumed otherwise.
#[verifier::external_body]
pub fn __parse_unicode_hex(length: usize, chars: &mut Enumerate<Chars>) -> (r: Result<char, ParseUnicodeError>)
    ensures
        ({ let n = if old(chars).rest().len() < length { old(chars).rest().len() as int } else { length as int };
           final(chars).rest() == old(chars).rest().skip(n) && final(chars).pos() == old(chars).pos() + n }),
        (old(chars).rest().len() >= length && hex_val(old(chars).rest().subrange(0, length as int)) is Some) ==>
            ({ let v = hex_val(old(chars).rest().subrange(0, length as int))->Some_0;
               if is_scalar(v) { r == Ok::<char, ParseUnicodeError>(chr(v)) } else { r is Err } }),
{ unimplemented!() }
/// parse_unicode_oct: the same for `\OOO` (first digit given, the next two taken from the iterator); values above 255 are errors
#[verifier::external_body]
pub fn __parse_unicode_oct(first_char: &char, chars: &mut Enumerate<Chars>) -> (r: Result<char, ParseUnicodeError>)
    ensures
        ({ let n = if old(chars).rest().len() < 2 { old(chars).rest().len() as int } else { 2int };
           final(chars).rest() == old(chars).rest().skip(n) && final(chars).pos() == old(chars).pos() + n }),
        (old(chars).rest().len() >= 2 && oct_val3(*first_char, old(chars).rest()[0], old(chars).rest()[1]) is Some) ==>
            ({ let v = oct_val3(*first_char, old(chars).rest()[0], old(chars).rest()[1])->Some_0;
               if v <= 255 { r == Ok::<char, ParseUnicodeError>(chr(v)) } else { r is Err } }),
{ unimplemented!() }
broadcast use {lit_ax::axiom_chr_of_char, lit_ax::axiom_char_of_chr, vstd::string::group_string_axioms};
// ---- parse_bytes environment (R6 wrappers; each body is the original expression, each contract ASSUMED from std) ----
#[verifier::external_body] pub fn __vec_with_capacity(s: &str) -> (r: Vec<u8>) ensures r@ == Seq::<u8>::empty() { unimplemented!() }
/// `[c1, .., cn].iter().collect::<String>()`
#[verifier::external_body] pub fn __collect_chars<const N: usize>(a: [char; N]) -> (r: String) ensures r@ == a@ { unimplemented!() }
#[verifier::external_body] pub fn __s_bsx() -> String { unimplemented!() }
/// `u8::from_str_radix(text, radix)` at the two instances used: two hex digits, three octal digits (first at most 3: value <= 255)
#[verifier::external_body]
pub fn __u8_from_str_radix(t: &String, radix: u32) -> (r: Result<u8, ParseIntError>)
    ensures
        (radix == 16 && t@.len() == 2 && hex_val(t@) is Some) ==> r == Ok::<u8, ParseIntError>(hex_val(t@)->Some_0 as u8),
        (radix == 8 && t@.len() == 3 && oct_val3(t@[0], t@[1], t@[2]) is Some && oct_val3(t@[0], t@[1], t@[2])->Some_0 <= 255)
            ==> r == Ok::<u8, ParseIntError>(oct_val3(t@[0], t@[1], t@[2])->Some_0 as u8),
{ unimplemented!() }
#[verifier::external_body] pub fn __len_utf8(c: char) -> (r: usize) ensures r == utf8_len(c), 1 <= r <= 4 { c.len_utf8() }
/// `c.encode_utf8(&mut buffer)`
#[verifier::external_body]
pub fn __encode_utf8(c: char, buffer: &mut [u8; 4])
    ensures final(buffer)@.subrange(0, utf8_len(c) as int) == utf8_bytes(c), utf8_bytes(c).len() == utf8_len(c)
{ unimplemented!() }
/// `res.extend_from_slice(&buffer[..size])` (a range beyond the array PANICS)
#[verifier::external_body]
pub fn __extend_prefix(res: &mut Vec<u8>, buffer: &[u8; 4], size: usize)
    requires size <= 4
    ensures final(res)@ == old(res)@ + buffer@.subrange(0, size as int)
{ unimplemented!() }
