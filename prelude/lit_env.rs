// ---- environment of antlr/src/parse.rs (literal decoders) ----
// `std::str::Chars` / `std::iter::Enumerate` stand-ins: an iterator over the characters of a string is modelled by the
// sequence of characters not yet produced (`rest`) and the count already produced (`pos`).  ASSUMED: `str::chars().enumerate()`
// yields exactly the characters of the string, in order, numbered from 0 (std contract).
#[verifier::external_body]
pub struct Chars<'a> { _p: &'a str }
#[verifier::external_body]
#[verifier::reject_recursive_types(I)]
pub struct Enumerate<I> { _p: I }
impl<'a> Enumerate<Chars<'a>> {
    pub uninterp spec fn rest(&self) -> Seq<char>;
    pub uninterp spec fn pos(&self) -> nat;
    #[verifier::external_body]
    pub fn next(&mut self) -> (r: Option<(usize, char)>)
        ensures match r {
            Some(p) => old(self).rest().len() > 0 && p.1 == old(self).rest()[0] && p.0 == old(self).pos()
                && final(self).rest() == old(self).rest().skip(1) && final(self).pos() == old(self).pos() + 1,
            None => old(self).rest().len() == 0 && final(self).rest() == old(self).rest() && final(self).pos() == old(self).pos() }
    { unimplemented!() }
}
/// `s.chars().enumerate()` (R6 wrapper)
#[verifier::external_body]
pub fn __chars_enumerate<'a>(s: &'a str) -> (r: Enumerate<Chars<'a>>) ensures r.rest() == s@, r.pos() == 0 { unimplemented!() }
/// `String::with_capacity(s.len())` (R6 wrapper): an empty string
#[verifier::external_body]
pub fn __string_with_capacity(s: &str) -> (r: String) ensures r@ == Seq::<char>::empty() { unimplemented!() }
// error payloads (Display / Clone of the pieces; their text is not part of any contract)
#[verifier::external_body] pub fn __fmt1(c: char) -> String { unimplemented!() }
#[verifier::external_body] pub fn __fmt2(c: char, c2: char) -> String { unimplemented!() }
#[verifier::external_body] pub fn __fmt_bs(n: char) -> String { unimplemented!() }
#[verifier::external_body] pub fn __string_from(s: &str) -> String { unimplemented!() }
#[verifier::external_body] pub fn __clone_pue(x: &ParseUnicodeError) -> ParseUnicodeError { unimplemented!() }
/// The contract of parse_unicode_hex / parse_unicode_oct, shared VERBATIM by the call-site declaration (`__parse_unicode_hex`, used where the
/// callers hand over `&mut chars`) and by the unit that verifies the real function body (contracts/parse.parse_unicode_hex.vspec):
/// consumes the next `length` characters (fewer at the end of input); when these are `length` hex digits the result is the
/// character with that code point, or an error when the value is not a Unicode scalar value (stated for up to eight digits, which is
/// what fits `u32`; no precondition: a call with another length is not a defect).  Nothing is required otherwise.
pub open spec fn puh_post(length: usize, rest0: Seq<char>, pos0: nat, rest1: Seq<char>, pos1: nat, r: Result<char, ParseUnicodeError>) -> bool {
    ({ let n = if rest0.len() < length { rest0.len() as int } else { length as int };
       rest1 == rest0.skip(n) && pos1 == pos0 + n })
    && ((length <= 8 && rest0.len() >= length && hex_val(rest0.subrange(0, length as int)) is Some) ==>
            ({ let v = hex_val(rest0.subrange(0, length as int))->Some_0;
               if is_scalar(v) { r == Ok::<char, ParseUnicodeError>(chr(v)) } else { r is Err } }))
}
/// the same for `\OOO` (first digit given, the next two taken from the iterator); values above 255 are errors
pub open spec fn puo_post(first_char: char, rest0: Seq<char>, pos0: nat, rest1: Seq<char>, pos1: nat, r: Result<char, ParseUnicodeError>) -> bool {
    ({ let n = if rest0.len() < 2 { rest0.len() as int } else { 2int };
       rest1 == rest0.skip(n) && pos1 == pos0 + n })
    && ((rest0.len() >= 2 && oct_val3(first_char, rest0[0], rest0[1]) is Some) ==>
            ({ let v = oct_val3(first_char, rest0[0], rest0[1])->Some_0;
               if v <= 255 { r == Ok::<char, ParseUnicodeError>(chr(v)) } else { r is Err } }))
}
/// call-site declarations (the callers pass `&mut chars` with `chars: &mut Enumerate<Chars>`; the generic `I: Iterator` of the real
/// signature is instantiated by the stand-in iterator).  Their contract is the one the real bodies are verified against.
#[verifier::external_body]
pub fn __parse_unicode_hex(length: usize, chars: &mut Enumerate<Chars>) -> (r: Result<char, ParseUnicodeError>)
    ensures puh_post(length, old(chars).rest(), old(chars).pos(), final(chars).rest(), final(chars).pos(), r)
{ unimplemented!() }
#[verifier::external_body]
pub fn __parse_unicode_oct(first_char: &char, chars: &mut Enumerate<Chars>) -> (r: Result<char, ParseUnicodeError>)
    ensures puo_post(*first_char, old(chars).rest(), old(chars).pos(), final(chars).rest(), final(chars).pos(), r)
{ unimplemented!() }
// ---- environment of the two bodies (ASSUMED std contracts) ----
/// `chars.take(n).map(|(_, c)| c).collect::<String>()`: the next n characters (fewer at the end of input), the iterator advanced past them
#[verifier::external_body]
pub fn __take_collect(n: usize, chars: &mut Enumerate<Chars>) -> (r: String)
    ensures ({ let k = if old(chars).rest().len() < n { old(chars).rest().len() as int } else { n as int };
               r@ == old(chars).rest().subrange(0, k) && final(chars).rest() == old(chars).rest().skip(k) && final(chars).pos() == old(chars).pos() + k })
{ unimplemented!() }
/// `chars.take(2).for_each(|(_, c)| s.push(c))`
#[verifier::external_body]
pub fn __take2_push(chars: &mut Enumerate<Chars>, s: &mut String)
    ensures ({ let k = if old(chars).rest().len() < 2 { old(chars).rest().len() as int } else { 2int };
               final(s)@ == old(s)@ + old(chars).rest().subrange(0, k) && final(chars).rest() == old(chars).rest().skip(k) && final(chars).pos() == old(chars).pos() + k })
{ unimplemented!() }
/// `String::with_capacity(3)`
#[verifier::external_body]
pub fn __string_with_capacity_n(n: usize) -> (r: String) ensures r@ == Seq::<char>::empty() { unimplemented!() }
/// big-endian value of a run of octal digits
pub open spec fn oct_val(t: Seq<char>) -> Option<int>
    decreases t.len()
{
    if t.len() == 0 { None } else {
        match octd(t.last()) { None => None, Some(d) =>
            if t.len() == 1 { Some(d) } else { match oct_val(t.drop_last()) { None => None, Some(h) => Some(h * 8 + d) } } }
    }
}
/// `u32::from_str_radix` (std, ASSUMED): a non-empty run of digits of the radix whose value fits is that value (nothing is said about
/// signs, other radices or failures)
pub assume_specification[u32::from_str_radix](s: &str, radix: u32) -> (r: Result<u32, ParseIntError>)
    ensures (radix == 16 && hex_val(s@) is Some && hex_val(s@)->Some_0 <= u32::MAX) ==> r == Ok::<u32, ParseIntError>(hex_val(s@)->Some_0 as u32),
            (radix == 8 && oct_val(s@) is Some && oct_val(s@)->Some_0 <= u32::MAX) ==> r == Ok::<u32, ParseIntError>(oct_val(s@)->Some_0 as u32);
/// `char::from_u32` (std): exactly the Unicode scalar values are characters
pub assume_specification[char::from_u32](u: u32) -> (r: Option<char>)
    ensures r == (if is_scalar(u as int) { Some(chr(u as int)) } else { None::<char> });
pub proof fn lemma_hex_val_bound(t: Seq<char>)
    ensures hex_val(t) is Some ==> 0 <= hex_val(t)->Some_0 < pow16(t.len())
    decreases t.len()
{
    reveal_with_fuel(pow16, 2);
    if t.len() > 1 {
        lemma_hex_val_bound(t.drop_last());
        assert(t.drop_last().len() == t.len() - 1);
        assert(pow16(t.len()) == 16 * pow16((t.len() - 1) as nat));
    }
    if t.len() >= 1 { assert(hexd(t.last()) is Some ==> 0 <= hexd(t.last())->Some_0 <= 15); }
}
pub open spec fn pow16(n: nat) -> int decreases n { if n == 0 { 1 } else { 16 * pow16((n - 1) as nat) } }
broadcast use {lit_ax::axiom_chr_of_char, lit_ax::axiom_char_of_chr, vstd::string::group_string_axioms};
// ---- parse_bytes environment (R6 wrappers; each body is the original expression, each contract ASSUMED from std) ----
#[verifier::external_body] pub fn __vec_with_capacity(s: &str) -> (r: Vec<u8>) ensures r@ == Seq::<u8>::empty() { unimplemented!() }
/// `[c1, .., cn].iter().collect::<String>()`
#[verifier::external_body] pub fn __collect_chars<const N: usize>(a: [char; N]) -> (r: String) ensures r@ == a@ { unimplemented!() }
#[verifier::external_body] pub fn __s_bsx() -> String { unimplemented!() }
/// `u8::from_str_radix(text, radix)` at the two instances used: two hex digits, three octal digits (first at most 3: value <= 255)
#[verifier::external_body]
pub fn __u8_from_str_radix(t: &String, radix: u32) -> (r: Result<u8, ParseIntError>)
    ensures
        (radix == 16 && t@.len() == 2 && hex_val(t@) is Some) ==> r == Ok::<u8, ParseIntError>(hex_val(t@)->Some_0 as u8),
        (radix == 8 && t@.len() == 3 && oct_val3(t@[0], t@[1], t@[2]) is Some && oct_val3(t@[0], t@[1], t@[2])->Some_0 <= 255)
            ==> r == Ok::<u8, ParseIntError>(oct_val3(t@[0], t@[1], t@[2])->Some_0 as u8),
{ unimplemented!() }
#[verifier::external_body] pub fn __len_utf8(c: char) -> (r: usize) ensures r == utf8_len(c), 1 <= r <= 4 { c.len_utf8() }
/// `c.encode_utf8(&mut buffer)`
#[verifier::external_body]
pub fn __encode_utf8(c: char, buffer: &mut [u8; 4])
    ensures final(buffer)@.subrange(0, utf8_len(c) as int) == utf8_bytes(c), utf8_bytes(c).len() == utf8_len(c)
{ unimplemented!() }
/// `res.extend_from_slice(&buffer[..size])` (a range beyond the array PANICS)
#[verifier::external_body]
pub fn __extend_prefix(res: &mut Vec<u8>, buffer: &[u8; 4], size: usize)
    requires size <= 4
    ensures final(res)@ == old(res)@ + buffer@.subrange(0, size as int)
{ unimplemented!() }
