// ---- std: `str::parse::<F>()` as a function of the text (ASSUMED deterministic; per-type meaning by axioms of the including group) ----
pub mod parse_spec {
    use super::*;
    pub uninterp spec fn parse_of<F>(s: Seq<char>) -> Option<F>;
    #[verifier::external_trait_specification]
    pub trait ExFromStr: Sized {
        type ExternalTraitSpecificationFor: std::str::FromStr;
        type Err;
        fn from_str(s: &str) -> Result<Self, Self::Err>;
    }
    pub assume_specification<F: std::str::FromStr>[str::parse::<F>](s: &str) -> (r: Result<F, <F as std::str::FromStr>::Err>)
        ensures match parse_of::<F>(s@) { Some(v) => r is Ok && r->Ok_0 == v, None => r is Err };
}
