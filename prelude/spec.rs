// ---- reference semantics: mathematical values, views, operator specs (written from the property statements) ----
pub enum SVal {
    List(Seq<SVal>),
    Map(vstd::map::Map<SKey, SVal>),
    Function(Seq<char>, Option<Box<SVal>>),
    Int(int), UInt(int), Float(f64), Str(Seq<char>), Bytes(Seq<u8>), Bool(bool),
    Duration(int), Timestamp(int, int),   // nanoseconds; (nanoseconds since epoch, offset seconds)
    Null,
}
pub enum SKey { Int(int), Uint(int), Bool(bool), Str(Seq<char>) }
pub enum ErrClass {
    Unmodelled,
    InvalidArgumentCount, UnsupportedTargetType, NotSupportedAsMethod, UnsupportedKeyType, UnexpectedType,
    NoSuchKey, Undeclared(Seq<char>), MissingArgumentOrTarget, NotComparable, UnsupportedUnary, UnsupportedBinary,
    UnsupportedMapIndex, UnsupportedListIndex, UnsupportedIndex, FunctionError, DivZero, RemZero, Overflow, Other,
}
pub type SRes = Result<SVal, ErrClass>;

pub open spec fn vlist(l: Seq<Value>) -> Seq<SVal>
    decreases l
{
    Seq::new(l.len(), |i: int| if 0 <= i < l.len() { vview(l[i]) } else { SVal::Null })
}
pub open spec fn kview(k: Key) -> SKey {
    match k { Key::Int(i) => SKey::Int(i as int), Key::Uint(u) => SKey::Uint(u as int), Key::Bool(b) => SKey::Bool(b), Key::String(s) => SKey::Str(s@) }
}
/// abstract map: keys through the (injective) kview, values through vview
pub open spec fn amap(m: vstd::map::Map<Key, Value>) -> vstd::map::Map<SKey, SVal>
    decreases m via amap_dec
{
    vstd::map::Map::new(
        m.dom().map(|k: Key| kview(k)),
        |sk: SKey| { let k = choose|k: Key| m.contains_key(k) && kview(k) == sk; if m.contains_key(k) { vview(m[k]) } else { SVal::Null } },
    )
}
#[via_fn]
proof fn amap_dec(m: vstd::map::Map<Key, Value>) {}
pub open spec fn vview(v: Value) -> SVal
    decreases v
{
    match v {
        Value::List(l) => SVal::List(vlist(l@)),
        Value::Map(m) => SVal::Map(amap(m.map@)),
        Value::Function(n, t) => SVal::Function(n@, match t { Some(b) => Some(Box::new(vview(*b))), None => None }),
        Value::Int(i) => SVal::Int(i as int),
        Value::UInt(u) => SVal::UInt(u as int),
        Value::Float(f) => SVal::Float(f),
        Value::String(s) => SVal::Str(s@),
        Value::Bytes(b) => SVal::Bytes(b@),
        Value::Bool(b) => SVal::Bool(b),
        Value::Duration(d) => SVal::Duration(chrono::dur_ns(d)),
        Value::Timestamp(t) => SVal::Timestamp(chrono::ts_ns(t), chrono::ts_off(t)),
        Value::Null => SVal::Null,
    }
}
pub open spec fn eclass(e: ExecutionError) -> ErrClass {
    match e {
        ExecutionError::InvalidArgumentCount { .. } => ErrClass::InvalidArgumentCount,
        ExecutionError::UnsupportedTargetType { .. } => ErrClass::UnsupportedTargetType,
        ExecutionError::NotSupportedAsMethod { .. } => ErrClass::NotSupportedAsMethod,
        ExecutionError::UnsupportedKeyType(_) => ErrClass::UnsupportedKeyType,
        ExecutionError::UnexpectedType { .. } => ErrClass::UnexpectedType,
        ExecutionError::NoSuchKey(_) => ErrClass::NoSuchKey,
        ExecutionError::UndeclaredReference(n) => ErrClass::Undeclared(n@),   // the undeclared name is part of the observation (C19)
        ExecutionError::MissingArgumentOrTarget => ErrClass::MissingArgumentOrTarget,
        ExecutionError::ValuesNotComparable(_, _) => ErrClass::NotComparable,
        ExecutionError::UnsupportedUnaryOperator(_, _) => ErrClass::UnsupportedUnary,
        ExecutionError::UnsupportedBinaryOperator(_, _, _) => ErrClass::UnsupportedBinary,
        ExecutionError::UnsupportedMapIndex(_) => ErrClass::UnsupportedMapIndex,
        ExecutionError::UnsupportedListIndex(_) => ErrClass::UnsupportedListIndex,
        ExecutionError::UnsupportedIndex(_, _) => ErrClass::UnsupportedIndex,
        ExecutionError::FunctionError { .. } => ErrClass::FunctionError,
        ExecutionError::DivisionByZero(_) => ErrClass::DivZero,
        ExecutionError::RemainderByZero(_) => ErrClass::RemZero,
        ExecutionError::IntegerOverflow(_, _, _) => ErrClass::Overflow,
        _ => ErrClass::Other,
    }
}
pub open spec fn obs(r: ResolveResult) -> SRes {
    match r { Ok(v) => Ok(vview(v)), Err(e) => Err(eclass(e)) }
}
/// the code refines the reference semantics wherever the latter is defined
pub open spec fn refines(r: ResolveResult, s: SRes) -> bool { s == Err::<SVal, ErrClass>(ErrClass::Unmodelled) || obs(r) == s }

pub open spec fn val_view(v: Val) -> SVal {
    match v {
        Val::String(s) => SVal::Str(s@),
        Val::Boolean(b) => SVal::Bool(b),
        Val::Int(i) => SVal::Int(i as int),
        Val::UInt(u) => SVal::UInt(u as int),
        Val::Double(d) => SVal::Float(d),
        Val::Bytes(b) => SVal::Bytes(b@),
        Val::Null => SVal::Null,
    }
}

// doubles are uninterpreted on the Verus side (bit-precise proofs are the Kani harnesses)
pub uninterp spec fn fadd(a: f64, b: f64) -> f64;
pub uninterp spec fn fsub(a: f64, b: f64) -> f64;
pub uninterp spec fn fmul(a: f64, b: f64) -> f64;
pub uninterp spec fn fdiv(a: f64, b: f64) -> f64;
pub uninterp spec fn fneg(a: f64) -> f64;
pub uninterp spec fn f_is_zero(a: f64) -> bool;          // a == 0.0 (true for +0.0 and -0.0)
pub uninterp spec fn feq(a: f64, b: f64) -> bool;        // IEEE ==
pub uninterp spec fn fcmp(a: f64, b: f64) -> Option<Ordering>;   // IEEE partial order
pub uninterp spec fn i2f(a: int) -> f64;                 // `as f64` on an integer (round to nearest)

pub open spec fn smap_nonempty(m: vstd::map::Map<SKey, SVal>) -> bool { exists|k: SKey| m.contains_key(k) }
#[verifier::opaque]
pub open spec fn truthy(v: SVal) -> bool {
    match v {
        SVal::List(l) => l.len() != 0,
        SVal::Map(m) => smap_nonempty(m),
        SVal::Int(i) => i != 0,
        SVal::UInt(i) => i != 0,
        SVal::Float(f) => !f_is_zero(f),
        SVal::Str(s) => s.len() != 0,
        SVal::Bytes(s) => s.len() != 0,
        SVal::Bool(b) => b,
        SVal::Null => false,
        SVal::Duration(d) => in_i64(d) && d != 0,
        SVal::Timestamp(t, _) => in_i64(t) && t > 0,
        SVal::Function(_, _) => false,
    }
}

pub open spec fn in_i64(x: int) -> bool { i64::MIN <= x <= i64::MAX }
pub open spec fn in_u64(x: int) -> bool { 0 <= x <= u64::MAX }
/// truncating division / remainder on mathematical integers (b != 0)
pub open spec fn tdiv(a: int, b: int) -> int {
    if a >= 0 { if b > 0 { a / b } else { -(a / (-b)) } } else { if b > 0 { -((-a) / b) } else { (-a) / (-b) } }
}
pub open spec fn trem(a: int, b: int) -> int { a - tdiv(a, b) * b }

pub open spec fn is_num(v: SVal) -> bool { v is Int || v is UInt || v is Float }

// ---- arithmetic (property C08): exact or overflow; mixed numeric kinds are an error ----

/// `size()`: number of elements, of bytes of the UTF-8 text, of bytes; maps are stated on the concrete entry count (contract of size)
pub open spec fn size_spec(v: SVal) -> Option<int> {
    match v { SVal::List(l) => Some(l.len() as int), SVal::Str(t) => Some(str_byte_len(t) as int), SVal::Bytes(b) => Some(b.len() as int),
              SVal::Map(_) => None, _ => None }
}
#[verifier::opaque]
pub open spec fn add_spec(l: SVal, r: SVal) -> SRes {
    match (l, r) {
        (SVal::Int(a), SVal::Int(b)) => if in_i64(a + b) { Ok(SVal::Int(a + b)) } else { Err(ErrClass::Overflow) },
        (SVal::UInt(a), SVal::UInt(b)) => if in_u64(a + b) { Ok(SVal::UInt(a + b)) } else { Err(ErrClass::Overflow) },
        (SVal::Float(a), SVal::Float(b)) => Ok(SVal::Float(fadd(a, b))),
        (SVal::List(a), SVal::List(b)) => Ok(SVal::List(a + b)),
        (SVal::Str(a), SVal::Str(b)) => Ok(SVal::Str(a + b)),
        // properties C15 / C16: exact on the nanosecond counts, out of range is an error
        (SVal::Duration(a), SVal::Duration(b)) => if chrono::dur_ok(a + b) { Ok(SVal::Duration(a + b)) } else { Err(ErrClass::Overflow) },
        (SVal::Timestamp(t, o), SVal::Duration(d)) => if chrono::ts_ok(t + d) { Ok(SVal::Timestamp(t + d, o)) } else { Err(ErrClass::Overflow) },
        (SVal::Duration(d), SVal::Timestamp(t, o)) => if chrono::ts_ok(t + d) { Ok(SVal::Timestamp(t + d, o)) } else { Err(ErrClass::Overflow) },
        _ => Err(ErrClass::UnsupportedBinary),
    }
}
#[verifier::opaque]
pub open spec fn sub_spec(l: SVal, r: SVal) -> SRes {
    match (l, r) {
        (SVal::Int(a), SVal::Int(b)) => if in_i64(a - b) { Ok(SVal::Int(a - b)) } else { Err(ErrClass::Overflow) },
        (SVal::UInt(a), SVal::UInt(b)) => if in_u64(a - b) { Ok(SVal::UInt(a - b)) } else { Err(ErrClass::Overflow) },
        (SVal::Float(a), SVal::Float(b)) => Ok(SVal::Float(fsub(a, b))),
        (SVal::Duration(a), SVal::Duration(b)) => if chrono::dur_ok(a - b) { Ok(SVal::Duration(a - b)) } else { Err(ErrClass::Overflow) },
        (SVal::Timestamp(t, o), SVal::Duration(d)) => if chrono::ts_ok(t - d) { Ok(SVal::Timestamp(t - d, o)) } else { Err(ErrClass::Overflow) },
        (SVal::Timestamp(t, _), SVal::Timestamp(u, _)) => Ok(SVal::Duration(t - u)),
        _ => Err(ErrClass::UnsupportedBinary),
    }
}
#[verifier::opaque]
pub open spec fn mul_spec(l: SVal, r: SVal) -> SRes {
    match (l, r) {
        (SVal::Int(a), SVal::Int(b)) => if in_i64(a * b) { Ok(SVal::Int(a * b)) } else { Err(ErrClass::Overflow) },
        (SVal::UInt(a), SVal::UInt(b)) => if in_u64(a * b) { Ok(SVal::UInt(a * b)) } else { Err(ErrClass::Overflow) },
        (SVal::Float(a), SVal::Float(b)) => Ok(SVal::Float(fmul(a, b))),
        _ => Err(ErrClass::UnsupportedBinary),
    }
}
#[verifier::opaque]
pub open spec fn div_spec(l: SVal, r: SVal) -> SRes {
    match (l, r) {
        (SVal::Int(a), SVal::Int(b)) => if b == 0 { Err(ErrClass::DivZero) } else if in_i64(tdiv(a, b)) { Ok(SVal::Int(tdiv(a, b))) } else { Err(ErrClass::Overflow) },
        (SVal::UInt(a), SVal::UInt(b)) => if b == 0 { Err(ErrClass::DivZero) } else { Ok(SVal::UInt(tdiv(a, b))) },
        (SVal::Float(a), SVal::Float(b)) => Ok(SVal::Float(fdiv(a, b))),
        _ => Err(ErrClass::UnsupportedBinary),
    }
}
#[verifier::opaque]
pub open spec fn rem_spec(l: SVal, r: SVal) -> SRes {
    match (l, r) {
        // the remainder of the most negative int by -1 also counts as overflow (as in cel-go)
        (SVal::Int(a), SVal::Int(b)) => if b == 0 { Err(ErrClass::RemZero) } else if !in_i64(tdiv(a, b)) { Err(ErrClass::Overflow) } else { Ok(SVal::Int(trem(a, b))) },
        (SVal::UInt(a), SVal::UInt(b)) => if b == 0 { Err(ErrClass::RemZero) } else { Ok(SVal::UInt(trem(a, b))) },
        _ => Err(ErrClass::UnsupportedBinary),
    }
}
#[verifier::opaque]
pub open spec fn neg_spec(v: SVal) -> SRes {
    match v {
        SVal::Int(i) => if i == i64::MIN { Err(ErrClass::Overflow) } else { Ok(SVal::Int(-i)) },
        SVal::Float(f) => Ok(SVal::Float(fneg(f))),
        _ => Err(ErrClass::UnsupportedUnary),
    }
}
pub broadcast proof fn lemma_vlist_concat(a: Seq<Value>, b: Seq<Value>)
    ensures #![trigger vlist(a + b)] #![trigger vlist(a) + vlist(b)] vlist(a + b) =~= vlist(a) + vlist(b)
{
    assert forall|i: int| 0 <= i < (a + b).len() implies #[trigger] vlist(a + b)[i] == (vlist(a) + vlist(b))[i] by {
        if i < a.len() { assert((a + b)[i] == a[i]); } else { assert((a + b)[i] == b[i - a.len()]); }
    }
}

pub proof fn lemma_kview_injective(a: Key, b: Key)
    requires kview(a) == kview(b)
    ensures a == b
{
    broadcast use ax::axiom_string_ext;
    match (a, b) {
        (Key::String(x), Key::String(y)) => { assert(x@ =~= y@); assert(*x == *y); }
        _ => {}
    }
}
pub proof fn lemma_amap_get(m: vstd::map::Map<Key, Value>, k: Key)
    ensures
        m.contains_key(k) ==> (amap(m).contains_key(kview(k)) && amap(m)[kview(k)] == vview(m[k])),
        !m.contains_key(k) ==> !amap(m).contains_key(kview(k)),
{
    if m.contains_key(k) {
        assert(m.dom().contains(k));
        assert(m.dom().map(|k: Key| kview(k)).contains(kview(k)));
        let k2 = choose|k2: Key| m.contains_key(k2) && kview(k2) == kview(k);
        lemma_kview_injective(k2, k);
    } else {
        if amap(m).contains_key(kview(k)) {
            let k2 = choose|k2: Key| m.dom().contains(k2) && kview(k2) == kview(k);
            lemma_kview_injective(k2, k);
        }
    }
}

pub proof fn lemma_vlist_len(l: Seq<Value>)
    ensures vlist(l).len() == l.len()
{ }
pub proof fn lemma_vlist_index(l: Seq<Value>, i: int)
    requires 0 <= i < l.len()
    ensures vlist(l).len() == l.len(), vlist(l)[i] == vview(l[i])
{ }
pub proof fn lemma_vlist_push(l: Seq<Value>, v: Value)
    ensures vlist(l.push(v)) =~= vlist(l).push(vview(v))
{ }
pub proof fn lemma_vlist_empty()
    ensures vlist(Seq::<Value>::empty()) =~= Seq::<SVal>::empty()
{ }
/// abstract key set = image of the concrete key set
pub proof fn lemma_amap_dom(m: vstd::map::Map<Key, Value>, sk: SKey)
    ensures amap(m).contains_key(sk) <==> exists|k: Key| m.contains_key(k) && kview(k) == sk
{
    if amap(m).contains_key(sk) {
        let k2 = choose|k2: Key| m.dom().contains(k2) && kview(k2) == sk;
        assert(m.contains_key(k2));
    }
    if exists|k: Key| m.contains_key(k) && kview(k) == sk {
        let k = choose|k: Key| m.contains_key(k) && kview(k) == sk;
        assert(m.dom().contains(k));
        assert(m.dom().map(|k: Key| kview(k)).contains(kview(k)));
    }
}
