// ---- real type definitions, extracted verbatim from /repo on every run ----
pub mod operators {
//@consts antlr/src/ast/operators.rs
}
//@item antlr/src/reference.rs :: enum Val
//@item antlr/src/ast/mod.rs :: enum Expr
//@item antlr/src/ast/mod.rs :: enum EntryExpr
//@item antlr/src/ast/mod.rs :: struct IdedExpr
//@item antlr/src/ast/mod.rs :: struct IdedEntryExpr
//@item antlr/src/ast/mod.rs :: struct CallExpr
//@item antlr/src/ast/mod.rs :: struct SelectExpr
//@item antlr/src/ast/mod.rs :: struct StructExpr
//@item antlr/src/ast/mod.rs :: struct MapExpr
//@item antlr/src/ast/mod.rs :: struct ListExpr
//@item antlr/src/ast/mod.rs :: struct StructFieldExpr
//@item antlr/src/ast/mod.rs :: struct MapEntryExpr
//@item antlr/src/ast/mod.rs :: struct ComprehensionExpr
pub type Expression = IdedExpr;
//@item interpreter/src/objects.rs :: struct Map
//@item interpreter/src/objects.rs :: enum Key
//@item interpreter/src/objects.rs :: enum Value
//@item interpreter/src/objects.rs :: type ResolveResult
//@item interpreter/src/lib.rs :: enum ExecutionError
// derived impls of the real types (#[derive] is dropped by extraction): structural specs ASSUMED
impl Clone for Value { #[verifier::external_body] fn clone(&self) -> (r: Value) ensures r == *self { unimplemented!() } }
impl Clone for Key { #[verifier::external_body] fn clone(&self) -> (r: Key) ensures r == *self { unimplemented!() } }
impl Clone for Map { #[verifier::external_body] fn clone(&self) -> (r: Map) ensures r == *self { unimplemented!() } }
impl Clone for Val { #[verifier::external_body] fn clone(&self) -> (r: Val) ensures r == *self { unimplemented!() } }
impl Clone for IdedExpr { #[verifier::external_body] fn clone(&self) -> (r: IdedExpr) ensures r == *self { unimplemented!() } }
impl Clone for ExecutionError { #[verifier::external_body] fn clone(&self) -> (r: ExecutionError) ensures r == *self { unimplemented!() } }
