// operator traits on Value: no std-level spec (the contracts are on the impl fns themselves)
impl AddSpecImpl<Value> for Value { open spec fn obeys_add_spec() -> bool { false } open spec fn add_req(self, rhs: Value) -> bool { true } open spec fn add_spec(self, rhs: Value) -> ResolveResult { arbitrary() } }
impl SubSpecImpl<Value> for Value { open spec fn obeys_sub_spec() -> bool { false } open spec fn sub_req(self, rhs: Value) -> bool { true } open spec fn sub_spec(self, rhs: Value) -> ResolveResult { arbitrary() } }
impl MulSpecImpl<Value> for Value { open spec fn obeys_mul_spec() -> bool { false } open spec fn mul_req(self, rhs: Value) -> bool { true } open spec fn mul_spec(self, rhs: Value) -> ResolveResult { arbitrary() } }
impl DivSpecImpl<Value> for Value { open spec fn obeys_div_spec() -> bool { false } open spec fn div_req(self, rhs: Value) -> bool { true } open spec fn div_spec(self, rhs: Value) -> ResolveResult { arbitrary() } }
impl RemSpecImpl<Value> for Value { open spec fn obeys_rem_spec() -> bool { false } open spec fn rem_req(self, rhs: Value) -> bool { true } open spec fn rem_spec(self, rhs: Value) -> ResolveResult { arbitrary() } }
