// ---- property C19: every identifier / call name occurrence, in every child position of every node kind (from ast/mod.rs) ----
pub open spec fn internal(n: Seq<char>) -> bool { n.len() > 0 && n[0] == '@' }
/// has_ident(e, s): s occurs as a (non macro-internal) identifier somewhere in e
pub open spec fn entry_has_ident(en: IdedEntryExpr, s: Seq<char>) -> bool
    decreases en, 0nat
{
    match en.expr {
        EntryExpr::StructField(f) => has_ident(f.value, s),
        EntryExpr::MapEntry(m) => has_ident(m.key, s) || has_ident(m.value, s),
    }
}
/// some of the first k arguments / elements / entries mention s
pub open spec fn args_has_ident(c: CallExpr, k: int, s: Seq<char>) -> bool
    decreases c, k
{
    if k <= 0 || k > c.args@.len() { false } else { args_has_ident(c, k - 1, s) || has_ident(c.args@[k - 1], s) }
}
pub open spec fn elems_has_ident(l: ListExpr, k: int, s: Seq<char>) -> bool
    decreases l, k
{
    if k <= 0 || k > l.elements@.len() { false } else { elems_has_ident(l, k - 1, s) || has_ident(l.elements@[k - 1], s) }
}
pub open spec fn mentries_has_ident(m: MapExpr, k: int, s: Seq<char>) -> bool
    decreases m, k
{
    if k <= 0 || k > m.entries@.len() { false } else { mentries_has_ident(m, k - 1, s) || entry_has_ident(m.entries@[k - 1], s) }
}
pub open spec fn sentries_has_ident(m: StructExpr, k: int, s: Seq<char>) -> bool
    decreases m, k
{
    if k <= 0 || k > m.entries@.len() { false } else { sentries_has_ident(m, k - 1, s) || entry_has_ident(m.entries@[k - 1], s) }
}
pub open spec fn has_ident(e: IdedExpr, s: Seq<char>) -> bool
    decreases e, 0nat
{
    match e.expr {
        Expr::Unspecified => false,
        Expr::Literal(_) => false,
        Expr::Ident(n) => n@ == s && !internal(n@),
        Expr::Call(c) => (c.target matches Some(t) && has_ident(*t, s)) || args_has_ident(c, c.args@.len() as int, s),
        Expr::Comprehension(c) => has_ident(*c.iter_range, s) || has_ident(*c.accu_init, s) || has_ident(*c.loop_cond, s)
            || has_ident(*c.loop_step, s) || has_ident(*c.result, s),
        Expr::List(l) => elems_has_ident(l, l.elements@.len() as int, s),
        Expr::Map(m) => mentries_has_ident(m, m.entries@.len() as int, s),
        Expr::Select(sel) => has_ident(*sel.operand, s),
        Expr::Struct(st) => sentries_has_ident(st, st.entries@.len() as int, s),
    }
}
/// has_call(e, s): s is the name of some call node in e (operators are calls)
pub open spec fn entry_has_call(en: IdedEntryExpr, s: Seq<char>) -> bool
    decreases en, 0nat
{
    match en.expr {
        EntryExpr::StructField(f) => has_call(f.value, s),
        EntryExpr::MapEntry(m) => has_call(m.key, s) || has_call(m.value, s),
    }
}
/// some of the first k arguments / elements / entries mention s
pub open spec fn args_has_call(c: CallExpr, k: int, s: Seq<char>) -> bool
    decreases c, k
{
    if k <= 0 || k > c.args@.len() { false } else { args_has_call(c, k - 1, s) || has_call(c.args@[k - 1], s) }
}
pub open spec fn elems_has_call(l: ListExpr, k: int, s: Seq<char>) -> bool
    decreases l, k
{
    if k <= 0 || k > l.elements@.len() { false } else { elems_has_call(l, k - 1, s) || has_call(l.elements@[k - 1], s) }
}
pub open spec fn mentries_has_call(m: MapExpr, k: int, s: Seq<char>) -> bool
    decreases m, k
{
    if k <= 0 || k > m.entries@.len() { false } else { mentries_has_call(m, k - 1, s) || entry_has_call(m.entries@[k - 1], s) }
}
pub open spec fn sentries_has_call(m: StructExpr, k: int, s: Seq<char>) -> bool
    decreases m, k
{
    if k <= 0 || k > m.entries@.len() { false } else { sentries_has_call(m, k - 1, s) || entry_has_call(m.entries@[k - 1], s) }
}
pub open spec fn has_call(e: IdedExpr, s: Seq<char>) -> bool
    decreases e, 0nat
{
    match e.expr {
        Expr::Unspecified => false,
        Expr::Literal(_) => false,
        Expr::Ident(n) => false,
        Expr::Call(c) => c.func_name@ == s || (c.target matches Some(t) && has_call(*t, s)) || args_has_call(c, c.args@.len() as int, s),
        Expr::Comprehension(c) => has_call(*c.iter_range, s) || has_call(*c.accu_init, s) || has_call(*c.loop_cond, s)
            || has_call(*c.loop_step, s) || has_call(*c.result, s),
        Expr::List(l) => elems_has_call(l, l.elements@.len() as int, s),
        Expr::Map(m) => mentries_has_call(m, m.entries@.len() as int, s),
        Expr::Select(sel) => has_call(*sel.operand, s),
        Expr::Struct(st) => sentries_has_call(st, st.entries@.len() as int, s),
    }
}
#[verifier::external_body]
pub proof fn axiom_str_key_model<'a>() ensures vstd::std_specs::hash::obeys_key_model::<&'a str>() {}
