// ---- environment of magic.rs / resolvers.rs / FunctionContext ----
pub trait TryIntoValue: Sized {
    type Error;
    spec fn tiv_spec(self) -> Result<Value, Self::Error>;
    fn try_into_value(self) -> (r: Result<Value, Self::Error>)
        ensures r == self.tiv_spec();
}
/// the crate's own traits, re-declared with one woven ghost item each so that generic impls can be verified once for all T
pub trait FromValue: Sized {
    /// what converting `v` into Self may return (a relation: error payloads carry formatted text)
    spec fn fv_post(v: Value, r: Result<Self, ExecutionError>) -> bool;
    fn from_value(value: &Value) -> (r: Result<Self, ExecutionError>)
        ensures Self::fv_post(*value, r);
}
/// Debug text of a value on an error path (core::fmt): R6 wrapper
#[verifier::external_body] pub fn __debug_value(e: &Value) -> String { unimplemented!() }
pub open spec fn this_lift<T>(x: Result<T, ExecutionError>) -> Result<This<T>, ExecutionError> {
    match x { Ok(t) => Ok(This(t)), Err(e) => Err(e) }
}
pub trait Resolver {
    /// what a resolver may return for a function context (relation: the evaluator is specified by refinement)
    spec fn rpre(&self, ctx: FunctionContext) -> bool;
    spec fn rpost(&self, ctx: FunctionContext, r: ResolveResult) -> bool;
    fn resolve(&self, ctx: &FunctionContext) -> (r: ResolveResult)
        requires self.rpre(*ctx),
        ensures self.rpost(*ctx, r);
}
pub trait FromContext<'a, 'context>: Sized {
    fn from_context(ctx: &'a mut FunctionContext<'context>) -> Result<Self, ExecutionError>
        requires fc_pre(*old(ctx));
}
/// sanity of a function context handed to an extractor: argument expressions are parser-produced, the cursor cannot overflow
pub open spec fn fc_pre(ctx: FunctionContext) -> bool { ctx.arg_idx < usize::MAX - 1 && ast_wf_args(ctx) }
pub open spec fn ast_wf_args(ctx: FunctionContext) -> bool { forall|i: int| 0 <= i < ctx.args@.len() ==> ast_wf(#[trigger] ctx.args@[i]) }
/// "evaluate exactly the i-th argument expression, in the caller's scopes"
pub open spec fn arg_post(ctx: FunctionContext, i: int, r: ResolveResult) -> bool {
    if 0 <= i < ctx.args@.len() {
        in_fragment(ctx.args@[i]) ==> refines(r, ev(ctx.args@[i], env_view(*ctx.ptx), funcs_of(*ctx.ptx)))
    } else {
        r == Err::<Value, ExecutionError>(ExecutionError::InvalidArgumentCount { expected: (i + 1) as usize, actual: ctx.args@.len() as usize })
    }
}
//@item interpreter/src/magic.rs :: struct This
//@item interpreter/src/magic.rs :: struct Identifier
//@item interpreter/src/magic.rs :: struct Arguments
//@item interpreter/src/resolvers.rs :: struct Argument [pub]
//@item interpreter/src/resolvers.rs :: struct AllArguments [pub]
