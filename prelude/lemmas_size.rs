// ---- property C14, "size is additive over + for lists and strings; concatenation preserves element order" ----
// (over the contracts: `+` is proved equal to add_spec, size() to size_spec)
pub proof fn lemma_size_additive(a: SVal, b: SVal)
    requires (a is List && b is List) || (a is Str && b is Str)
    ensures add_spec(a, b) matches Ok(c) && size_spec(c) == Some(size_spec(a)->Some_0 + size_spec(b)->Some_0)
{
    reveal(add_spec);
    match (a, b) {
        (SVal::Str(x), SVal::Str(y)) => { lemma_str_byte_len_concat(x, y); }
        _ => {}
    }
}
pub proof fn lemma_concat_keeps_order(a: Seq<SVal>, b: Seq<SVal>)
    ensures add_spec(SVal::List(a), SVal::List(b)) matches Ok(SVal::List(c)) && c.len() == a.len() + b.len()
        && (forall|i: int| 0 <= i < a.len() ==> c[i] == a[i]) && (forall|i: int| 0 <= i < b.len() ==> c[a.len() + i] == b[i])
{
    reveal(add_spec);
}
