// ---- the function registry (magic.rs FunctionRegistry): name -> function, a later registration replaces an earlier one ----
pub type Funcs = vstd::map::Map<Seq<char>, Function>;
/// the registry as a map keyed by the name's characters (a `String` is determined by its characters: ax::axiom_string_ext)
pub open spec fn registry_view(r: FunctionRegistry) -> Funcs {
    vstd::map::Map::new(r.functions@.dom().map(|s: String| s@), |k: Seq<char>| r.functions@[ax::mk_string(k)])
}
/// every sequence of characters is the text of some String (ASSUMED)
#[verifier::external_body]
pub proof fn axiom_mk_string_view(s: Seq<char>) ensures ax::mk_string(s)@ == s {}
/// `String: Borrow<str>` agrees with `Eq` / `Hash` (std's contract for Borrow): looking a `&str` up in a HashMap<String, V> finds the
/// entry of the String with those characters (ASSUMED; vstd leaves borrowed-key lookups uninterpreted)
#[verifier::external_body]
pub proof fn axiom_str_borrow<V>()
    ensures forall|m: vstd::map::Map<String, V>, k: &str| #[trigger] vstd::std_specs::hash::contains_borrowed_key(m, k) <==> m.contains_key(ax::mk_string(k@)),
            forall|m: vstd::map::Map<String, V>, k: &str, v: V| #[trigger] vstd::std_specs::hash::maps_borrowed_key_to_value(m, k, v) <==> (m.contains_key(ax::mk_string(k@)) && m[ax::mk_string(k@)] == v),
{}
pub proof fn lemma_registry_dom(r: FunctionRegistry, k: Seq<char>)
    ensures registry_view(r).contains_key(k) <==> r.functions@.contains_key(ax::mk_string(k))
{
    if r.functions@.contains_key(ax::mk_string(k)) {
        axiom_mk_string_view(k);
        assert(r.functions@.dom().map(|s: String| s@).contains(k));
    }
    if registry_view(r).contains_key(k) {
        let s = choose|s: String| r.functions@.dom().contains(s) && s@ == k;
        assert(ax::mk_string(s@) == s);
    }
}
/// magic.rs IntoFunction: the conversion of a host closure into a boxed function (the handler adapters: group handlers)
pub trait IntoFunction<T>: Sized {
    spec fn fn_spec(self) -> Function;
    fn into_function(self) -> (r: Function) ensures r == self.fn_spec();
}
#[verifier::external_body] pub fn __str_to_string(s: &str) -> (r: String) ensures r@ == s@ { unimplemented!() }
