// ---- macro lookup and call construction (property C04: "macro lookup by name, arity and receiver presence", "a macro call expands
// around, never into, its receiver and argument expressions") ----
/// R30: a function pointer is represented by the name of the function it points to (`pub type MacroExpander = fn(..)` in macros.rs)
pub enum MacroExpander { Has, Exists, All, ExistsOne, Map, Filter }
pub open spec fn expander_spec(name: Seq<char>, has_target: bool, nargs: int) -> Option<MacroExpander> {
    if name == "has"@ && nargs == 1 && !has_target { Some(MacroExpander::Has) }
    else if name == "exists"@ && nargs == 2 && has_target { Some(MacroExpander::Exists) }
    else if name == "all"@ && nargs == 2 && has_target { Some(MacroExpander::All) }
    else if (name == "exists_one"@ || name == "existsOne"@) && nargs == 2 && has_target { Some(MacroExpander::ExistsOne) }
    else if name == "map"@ && (nargs == 2 || nargs == 3) && has_target { Some(MacroExpander::Map) }
    else if name == "filter"@ && nargs == 2 && has_target { Some(MacroExpander::Filter) }
    else { None }
}
/// the guard each expander relies on (their `requires` clauses, checked where the dispatcher calls them)
pub open spec fn kind_pre(k: MacroExpander, target: Option<IdedExpr>, args: Seq<IdedExpr>) -> bool {
    match k {
        MacroExpander::Has => target is None && args.len() == 1,
        MacroExpander::Map => target is Some && (args.len() == 2 || args.len() == 3),
        _ => target is Some && args.len() == 2,
    }
}
