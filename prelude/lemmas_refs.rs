// ---- property C19, composition lemma (pure spec): an UndeclaredReference of the reference semantics names an identifier
// or call name of the tree (or a macro-internal '@' name).  Together with `resolve refines ev` (which compares the name) and
// the contract of `_references` (it reports exactly has_ident / has_call) this is the first sentence of C19.
/// ASSUMED about host functions (dyn Fn): they report UndeclaredReference only as the result of evaluating one of their
/// argument expressions in some scope chain
pub open spec fn host_ok() -> bool {
    forall|f: Function, this: Option<SVal>, args: Seq<IdedExpr>, env: Env, fs: Funcs|
        (#[trigger] host_spec(f, this, args, env, fs)) matches Err(ErrClass::Undeclared(n))
        ==> exists|i: int, env2: Env| 0 <= i < args.len() && #[trigger] ev(args[i], env2, fs) == Err::<SVal, ErrClass>(ErrClass::Undeclared(n))
}
pub open spec fn named(e: IdedExpr, n: Seq<char>) -> bool { has_ident(e, n) || has_call(e, n) || internal(n) }

pub proof fn lemma_args_has(c: CallExpr, i: int, k: int, n: Seq<char>)
    requires 0 <= i < k <= c.args@.len()
    ensures has_ident(c.args@[i], n) ==> args_has_ident(c, k, n), has_call(c.args@[i], n) ==> args_has_call(c, k, n)
    decreases k
{
    if i < k - 1 { lemma_args_has(c, i, k - 1, n); }
}
pub proof fn lemma_elems_has(l: ListExpr, i: int, k: int, n: Seq<char>)
    requires 0 <= i < k <= l.elements@.len()
    ensures has_ident(l.elements@[i], n) ==> elems_has_ident(l, k, n), has_call(l.elements@[i], n) ==> elems_has_call(l, k, n)
    decreases k
{
    if i < k - 1 { lemma_elems_has(l, i, k - 1, n); }
}
pub proof fn lemma_mentries_has(m: MapExpr, i: int, k: int, n: Seq<char>)
    requires 0 <= i < k <= m.entries@.len()
    ensures entry_has_ident(m.entries@[i], n) ==> mentries_has_ident(m, k, n), entry_has_call(m.entries@[i], n) ==> mentries_has_call(m, k, n)
    decreases k
{
    if i < k - 1 { lemma_mentries_has(m, i, k - 1, n); }
}
/// the operator specs never produce an UndeclaredReference themselves
pub proof fn lemma_ops_not_undeclared(op: BinOp, l: SVal, r: SVal)
    ensures !(binop_spec(op, l, r) matches Err(ErrClass::Undeclared(_))), !(neg_spec(l) matches Err(ErrClass::Undeclared(_)))
{
    reveal(add_spec); reveal(sub_spec); reveal(mul_spec); reveal(div_spec); reveal(rem_spec); reveal(neg_spec);
    reveal(in_spec); reveal(index_spec);
}

pub proof fn lemma_undeclared_is_referenced(e: IdedExpr, env: Env, fs: Funcs, n: Seq<char>)
    requires ev(e, env, fs) == Err::<SVal, ErrClass>(ErrClass::Undeclared(n)), host_ok()
    ensures named(e, n)
    decreases e, 0nat, 0nat
{
    reveal(member_spec);
    match e.expr {
        Expr::Literal(_) => {}
        Expr::Ident(name) => { assert(name@ == n); }
        Expr::Select(s) => { lemma_undeclared_is_referenced(*s.operand, env, fs, n); }
        Expr::List(l) => { lemma_elems_undeclared(l, 0, env, fs, n); }
        Expr::Map(m) => { lemma_entries_undeclared(m, 0, vstd::map::Map::<SKey, SVal>::empty(), env, fs, n); }
        Expr::Comprehension(c) => {
            match ev(*c.accu_init, env, fs) {
                Err(x) => { lemma_undeclared_is_referenced(*c.accu_init, env, fs, n); }
                Ok(a0) => match ev(*c.iter_range, env, fs) {
                    Err(x) => { lemma_undeclared_is_referenced(*c.iter_range, env, fs, n); }
                    Ok(range) => match range {
                        SVal::List(items) => {
                            let env1 = env.push(vstd::map::Map::<String, SVal>::empty().insert(c.accu_var, a0));
                            match fold_list(c, items, 0, env1, fs) {
                                Err(x) => { lemma_fold_undeclared(c, items, 0, env1, fs, n); }
                                Ok(env2) => { lemma_undeclared_is_referenced(*c.result, env2, fs, n); }
                            }
                        }
                        _ => {}
                    }
                }
            }
        }
        Expr::Call(c) => {
            let k = c.args@.len() as int;
            if is_op(c, operators::CONDITIONAL, 3) {
                match ev(c.args@[0], env, fs) {
                    Err(x) => { lemma_undeclared_is_referenced(c.args@[0], env, fs, n); lemma_args_has(c, 0, k, n); }
                    Ok(cv) => if truthy(cv) { lemma_undeclared_is_referenced(c.args@[1], env, fs, n); lemma_args_has(c, 1, k, n); }
                              else { lemma_undeclared_is_referenced(c.args@[2], env, fs, n); lemma_args_has(c, 2, k, n); }
                }
            } else if is_op(c, operators::LOGICAL_AND, 2) || is_op(c, operators::LOGICAL_OR, 2) || (c.args@.len() == 2 && binop_of(c.func_name@) is Some) {
                match ev(c.args@[0], env, fs) {
                    Err(x) => { lemma_undeclared_is_referenced(c.args@[0], env, fs, n); lemma_args_has(c, 0, k, n); }
                    Ok(l) => match ev(c.args@[1], env, fs) {
                        Err(x) => { lemma_undeclared_is_referenced(c.args@[1], env, fs, n); lemma_args_has(c, 1, k, n); }
                        Ok(r) => { if binop_of(c.func_name@) is Some { lemma_ops_not_undeclared(binop_of(c.func_name@)->Some_0, l, r); } }
                    }
                }
            } else if is_op(c, operators::LOGICAL_NOT, 1) || is_op(c, operators::NEGATE, 1) || is_op(c, operators::NOT_STRICTLY_FALSE, 1) {
                match ev(c.args@[0], env, fs) {
                    Err(x) => { lemma_undeclared_is_referenced(c.args@[0], env, fs, n); lemma_args_has(c, 0, k, n); }
                    Ok(v) => { lemma_ops_not_undeclared(BinOp::Add, v, v); }
                }
            } else {
                if !fs.contains_key(c.func_name@) { assert(c.func_name@ == n); } else {
                    let hr = match c.target { None => None::<SVal>, Some(t) => match ev(*t, env, fs) { Ok(tv) => Some(tv), Err(_) => None } };
                    match c.target {
                        Some(t) => { if ev(*t, env, fs) is Err { lemma_undeclared_is_referenced(*t, env, fs, n); } }
                        None => {}
                    }
                    if !(c.target matches Some(t) && ev(*t, env, fs) is Err) {
                        // the error comes from the host function: by host_ok from one of its argument expressions
                        let this = match c.target { None => None::<SVal>, Some(t) => Some(ev(*t, env, fs)->Ok_0) };
                        assert(host_spec(fs[c.func_name@], this, c.args@, env, fs) == Err::<SVal, ErrClass>(ErrClass::Undeclared(n)));
                        let (i, env2) = choose|i: int, env2: Env| 0 <= i < c.args@.len() && #[trigger] ev(c.args@[i], env2, fs) == Err::<SVal, ErrClass>(ErrClass::Undeclared(n));
                        lemma_undeclared_is_referenced(c.args@[i], env2, fs, n);
                        lemma_args_has(c, i, k, n);
                    }
                }
            }
        }
        Expr::Struct(_) => {}
        Expr::Unspecified => {}
    }
}
pub proof fn lemma_elems_undeclared(l: ListExpr, i: int, env: Env, fs: Funcs, n: Seq<char>)
    requires ev_elems(l, i, env, fs) == Err::<Seq<SVal>, ErrClass>(ErrClass::Undeclared(n)), host_ok(), 0 <= i
    ensures elems_has_ident(l, l.elements@.len() as int, n) || elems_has_call(l, l.elements@.len() as int, n) || internal(n)
    decreases l, l.elements@.len() - i, 0nat
{
    if i < l.elements@.len() {
        match ev(l.elements@[i], env, fs) {
            Err(x) => { lemma_undeclared_is_referenced(l.elements@[i], env, fs, n); lemma_elems_has(l, i, l.elements@.len() as int, n); }
            Ok(v) => { lemma_elems_undeclared(l, i + 1, env, fs, n); }
        }
    }
}
pub proof fn lemma_entries_undeclared(m: MapExpr, i: int, acc: vstd::map::Map<SKey, SVal>, env: Env, fs: Funcs, n: Seq<char>)
    requires ev_entries(m, i, acc, env, fs) == Err::<vstd::map::Map<SKey, SVal>, ErrClass>(ErrClass::Undeclared(n)), host_ok(), 0 <= i
    ensures mentries_has_ident(m, m.entries@.len() as int, n) || mentries_has_call(m, m.entries@.len() as int, n) || internal(n)
    decreases m, m.entries@.len() - i, 0nat
{
    if i < m.entries@.len() {
        let k = m.entries@.len() as int;
        match m.entries@[i].expr {
            EntryExpr::StructField(_) => {}
            EntryExpr::MapEntry(en) => match ev(en.key, env, fs) {
                Err(x) => { lemma_undeclared_is_referenced(en.key, env, fs, n); lemma_mentries_has(m, i, k, n); }
                Ok(kv) => match to_key(kv) {
                    None => {}
                    Some(key) => match ev(en.value, env, fs) {
                        Err(x) => { lemma_undeclared_is_referenced(en.value, env, fs, n); lemma_mentries_has(m, i, k, n); }
                        Ok(v) => { lemma_entries_undeclared(m, i + 1, acc.insert(key, v), env, fs, n); }
                    }
                }
            }
        }
    }
}
pub proof fn lemma_fold_undeclared(c: ComprehensionExpr, items: Seq<SVal>, i: int, env: Env, fs: Funcs, n: Seq<char>)
    requires fold_list(c, items, i, env, fs) == Err::<Env, ErrClass>(ErrClass::Undeclared(n)), host_ok(), env.len() > 0, 0 <= i
    ensures named(*c.loop_cond, n) || named(*c.loop_step, n)
    decreases c, items.len() - i, 1nat
{
    if i < items.len() {
        match ev(*c.loop_cond, env, fs) {
            Err(x) => { lemma_undeclared_is_referenced(*c.loop_cond, env, fs, n); }
            Ok(cv) => if truthy(cv) {
                let env1 = bind(env, c.iter_var, items[i]);
                match ev(*c.loop_step, env1, fs) {
                    Err(x) => { lemma_undeclared_is_referenced(*c.loop_step, env1, fs, n); }
                    Ok(a) => { lemma_fold_undeclared(c, items, i + 1, bind(env1, c.accu_var, a), fs, n); }
                }
            }
        }
    }
}

// ---- converse: if the context defines every reported variable and function, evaluation never fails with UndeclaredReference ----
/// every macro-internal identifier ('@...') that e reads is bound: by an enclosing comprehension of e, or listed in `bound`
pub open spec fn internal_bound(e: IdedExpr, bound: Set<Seq<char>>) -> bool
    decreases e, 0nat
{
    match e.expr {
        Expr::Unspecified => true,
        Expr::Literal(_) => true,
        Expr::Ident(n) => internal(n@) ==> bound.contains(n@),
        Expr::Call(c) => (c.target matches Some(t) ==> internal_bound(*t, bound))
            && (is_operator_name(c.func_name@) ==> is_operator_form(c))     // parser: operator names only occur in operator form
            && forall|j: int| 0 <= j < c.args@.len() ==> internal_bound(#[trigger] c.args@[j], bound),
        Expr::Comprehension(c) => internal_bound(*c.iter_range, bound) && internal_bound(*c.accu_init, bound)
            && internal_bound(*c.loop_cond, bound.insert(c.accu_var@)) && internal_bound(*c.loop_step, bound.insert(c.accu_var@))
            && internal_bound(*c.result, bound.insert(c.accu_var@)),
        Expr::List(l) => forall|j: int| 0 <= j < l.elements@.len() ==> internal_bound(#[trigger] l.elements@[j], bound),
        Expr::Map(m) => forall|j: int| 0 <= j < m.entries@.len() ==> ((#[trigger] m.entries@[j]).expr matches EntryExpr::MapEntry(en) ==> internal_bound(en.key, bound) && internal_bound(en.value, bound)),
        Expr::Select(sel) => internal_bound(*sel.operand, bound),
        Expr::Struct(_) => true,
    }
}
/// the scope chain defines name n
pub open spec fn defined(env: Env, n: Seq<char>) -> bool { exists|s: String| s@ == n && alookup(env, s) is Some }
/// env defines every reported variable of e, every internal name in `bound`; fs defines every reported function of e
pub open spec fn all_defined(e: IdedExpr, env: Env, fs: Funcs, bound: Set<Seq<char>>) -> bool {
    (forall|n: Seq<char>| has_ident(e, n) ==> #[trigger] defined(env, n))
    && (forall|n: Seq<char>| bound.contains(n) ==> #[trigger] defined(env, n))
    && (forall|n: Seq<char>| #[trigger] has_call(e, n) ==> (fs.contains_key(n) || is_operator_name(n)))
}
pub open spec fn is_operator_name(n: Seq<char>) -> bool { op_index(n) != 0 }
/// ASSUMED about host functions: they evaluate their argument expressions in scope chains that still define what the caller's defines
pub open spec fn host_ok2() -> bool {
    forall|f: Function, this: Option<SVal>, args: Seq<IdedExpr>, env: Env, fs: Funcs|
        (#[trigger] host_spec(f, this, args, env, fs)) matches Err(ErrClass::Undeclared(n))
        ==> exists|i: int, env2: Env| 0 <= i < args.len() && #[trigger] ev(args[i], env2, fs) == Err::<SVal, ErrClass>(ErrClass::Undeclared(n))
                && env2.len() > 0 && (forall|m: Seq<char>| defined(env, m) ==> defined(env2, m))
}
pub proof fn lemma_defined_bind(env: Env, name: String, v: SVal, m: Seq<char>)
    requires env.len() > 0
    ensures defined(env, m) ==> defined(bind(env, name, v), m), defined(bind(env, name, v), name@)
{
    broadcast use ax::axiom_string_ext;
    let e2 = bind(env, name, v);
    assert(e2.last().contains_key(name));
    assert(alookup(e2, name) is Some);
    if defined(env, m) {
        let s = choose|s: String| s@ == m && alookup(env, s) is Some;
        assert(e2.drop_last() =~= env.drop_last());
        if s == name { } else {
            assert(e2.last().contains_key(s) == env.last().contains_key(s));
            assert(alookup(e2, s) is Some);
        }
    }
}
pub proof fn lemma_defined_push(env: Env, name: String, v: SVal, m: Seq<char>)
    ensures defined(env, m) ==> defined(env.push(vstd::map::Map::<String, SVal>::empty().insert(name, v)), m),
            defined(env.push(vstd::map::Map::<String, SVal>::empty().insert(name, v)), name@)
{
    let e2 = env.push(vstd::map::Map::<String, SVal>::empty().insert(name, v));
    assert(e2.last().contains_key(name));
    assert(alookup(e2, name) is Some);
    assert(e2.drop_last() =~= env);
    if defined(env, m) {
        let s = choose|s: String| s@ == m && alookup(env, s) is Some;
        assert(alookup(e2, s) is Some);
    }
}

pub proof fn lemma_all_defined_mono(e: IdedExpr, sub: IdedExpr, env: Env, env2: Env, fs: Funcs, bound: Set<Seq<char>>, bound2: Set<Seq<char>>)
    requires all_defined(e, env, fs, bound),
        forall|n: Seq<char>| has_ident(sub, n) ==> has_ident(e, n), forall|n: Seq<char>| has_call(sub, n) ==> has_call(e, n),
        forall|m: Seq<char>| defined(env, m) ==> defined(env2, m),
        forall|n: Seq<char>| bound2.contains(n) ==> defined(env2, n),
    ensures all_defined(sub, env2, fs, bound2)
{
}
pub proof fn lemma_no_undeclared(e: IdedExpr, env: Env, fs: Funcs, bound: Set<Seq<char>>)
    requires internal_bound(e, bound), all_defined(e, env, fs, bound), host_ok2(), env.len() > 0
    ensures !(ev(e, env, fs) matches Err(ErrClass::Undeclared(_)))
    decreases e, 0nat, 0nat
{
    reveal(member_spec);
    broadcast use ax::axiom_string_ext;
    if ev(e, env, fs) matches Err(ErrClass::Undeclared(n)) {
        match e.expr {
            Expr::Literal(_) => {}
            Expr::Ident(name) => {
                assert(defined(env, name@)) by { if internal(name@) { assert(bound.contains(name@)); } else { assert(has_ident(e, name@)); } }
                let s2 = choose|s2: String| s2@ == name@ && alookup(env, s2) is Some;
                assert(s2 == name);
            }
            Expr::Select(s) => { lemma_all_defined_mono(e, *s.operand, env, env, fs, bound, bound); lemma_no_undeclared(*s.operand, env, fs, bound); }
            Expr::List(l) => { lemma_elems_no_undeclared(e, l, 0, env, fs, bound); }
            Expr::Map(m) => { lemma_entries_no_undeclared(e, m, 0, vstd::map::Map::<SKey, SVal>::empty(), env, fs, bound); }
            Expr::Comprehension(c) => {
                lemma_all_defined_mono(e, *c.accu_init, env, env, fs, bound, bound); lemma_no_undeclared(*c.accu_init, env, fs, bound);
                lemma_all_defined_mono(e, *c.iter_range, env, env, fs, bound, bound); lemma_no_undeclared(*c.iter_range, env, fs, bound);
                match (ev(*c.accu_init, env, fs), ev(*c.iter_range, env, fs)) {
                    (Ok(a0), Ok(SVal::List(items))) => {
                        let env1 = env.push(vstd::map::Map::<String, SVal>::empty().insert(c.accu_var, a0));
                        let b2 = bound.insert(c.accu_var@);
                        assert forall|m: Seq<char>| defined(env, m) implies defined(env1, m) by { lemma_defined_push(env, c.accu_var, a0, m); }
                        lemma_defined_push(env, c.accu_var, a0, c.accu_var@);
                        lemma_fold_no_undeclared(e, c, items, 0, env, env1, fs, bound);
                        match fold_list(c, items, 0, env1, fs) {
                            Ok(env2) => {
                                lemma_all_defined_mono(e, *c.result, env, env2, fs, bound, b2);
                                lemma_no_undeclared(*c.result, env2, fs, b2);
                            }
                            Err(_) => {}
                        }
                    }
                    _ => {}
                }
            }
            Expr::Call(c) => {
                let k = c.args@.len() as int;
                assert forall|j: int| 0 <= j < k implies !(#[trigger] ev(c.args@[j], env, fs) matches Err(ErrClass::Undeclared(_))) by {
                    assert forall|nn: Seq<char>| has_ident(c.args@[j], nn) implies has_ident(e, nn) by { lemma_args_has(c, j, k, nn); }
                    assert forall|nn: Seq<char>| has_call(c.args@[j], nn) implies has_call(e, nn) by { lemma_args_has(c, j, k, nn); }
                    lemma_all_defined_mono(e, c.args@[j], env, env, fs, bound, bound);
                    lemma_no_undeclared(c.args@[j], env, fs, bound);
                }
                if is_operator_form(c) {
                    if is_op(c, operators::CONDITIONAL, 3) {
                        assert(!(ev(c.args@[0], env, fs) matches Err(ErrClass::Undeclared(_))));
                        assert(!(ev(c.args@[1], env, fs) matches Err(ErrClass::Undeclared(_))));
                        assert(!(ev(c.args@[2], env, fs) matches Err(ErrClass::Undeclared(_))));
                    }
                    if c.args@.len() == 2 && binop_of(c.func_name@) is Some {
                        match (ev(c.args@[0], env, fs), ev(c.args@[1], env, fs)) { (Ok(l), Ok(r)) => { lemma_ops_not_undeclared(binop_of(c.func_name@)->Some_0, l, r); }, _ => {} }
                    }
                    if is_op(c, operators::NEGATE, 1) { match ev(c.args@[0], env, fs) { Ok(v) => { lemma_ops_not_undeclared(BinOp::Add, v, v); }, _ => {} } }
                } else {
                    assert(has_call(e, c.func_name@));
                    assert(fs.contains_key(c.func_name@));
                    match c.target {
                        Some(t) => { lemma_all_defined_mono(e, *t, env, env, fs, bound, bound); lemma_no_undeclared(*t, env, fs, bound); }
                        None => {}
                    }
                    let this = match c.target { None => None::<SVal>, Some(t) => match ev(*t, env, fs) { Ok(tv) => Some(tv), Err(_) => None } };
                    let hres = host_spec(fs[c.func_name@], this, c.args@, env, fs);
                    if hres matches Err(ErrClass::Undeclared(_)) {
                        let n2 = hres->Err_0->Undeclared_0;
                        let (i, env2) = choose|i: int, env2: Env| 0 <= i < c.args@.len() && #[trigger] ev(c.args@[i], env2, fs) == Err::<SVal, ErrClass>(ErrClass::Undeclared(n2))
                            && env2.len() > 0 && (forall|m: Seq<char>| defined(env, m) ==> defined(env2, m));
                        assert forall|nn: Seq<char>| has_ident(c.args@[i], nn) implies has_ident(e, nn) by { lemma_args_has(c, i, k, nn); }
                        assert forall|nn: Seq<char>| has_call(c.args@[i], nn) implies has_call(e, nn) by { lemma_args_has(c, i, k, nn); }
                        lemma_all_defined_mono(e, c.args@[i], env, env2, fs, bound, bound);
                        lemma_no_undeclared(c.args@[i], env2, fs, bound);
                    }
                }
            }
            Expr::Struct(_) => {}
            Expr::Unspecified => {}
        }
    }
}
pub proof fn lemma_elems_no_undeclared(e: IdedExpr, l: ListExpr, i: int, env: Env, fs: Funcs, bound: Set<Seq<char>>)
    requires e.expr == Expr::List(l), internal_bound(e, bound), all_defined(e, env, fs, bound), host_ok2(), env.len() > 0, 0 <= i
    ensures !(ev_elems(l, i, env, fs) matches Err(ErrClass::Undeclared(_)))
    decreases l, l.elements@.len() - i, 0nat
{
    if i < l.elements@.len() {
        let k = l.elements@.len() as int;
        assert forall|nn: Seq<char>| has_ident(l.elements@[i], nn) implies has_ident(e, nn) by { lemma_elems_has(l, i, k, nn); }
        assert forall|nn: Seq<char>| has_call(l.elements@[i], nn) implies has_call(e, nn) by { lemma_elems_has(l, i, k, nn); }
        lemma_all_defined_mono(e, l.elements@[i], env, env, fs, bound, bound);
        assert(e.expr matches Expr::List(l2) && l2 == l);
        assert(forall|j: int| 0 <= j < l.elements@.len() ==> internal_bound(#[trigger] l.elements@[j], bound));
        assert(internal_bound(l.elements@[i], bound));
        lemma_no_undeclared(l.elements@[i], env, fs, bound);
        lemma_elems_no_undeclared(e, l, i + 1, env, fs, bound);
    }
}
pub proof fn lemma_entries_no_undeclared(e: IdedExpr, m: MapExpr, i: int, acc: vstd::map::Map<SKey, SVal>, env: Env, fs: Funcs, bound: Set<Seq<char>>)
    requires e.expr == Expr::Map(m), internal_bound(e, bound), all_defined(e, env, fs, bound), host_ok2(), env.len() > 0, 0 <= i
    ensures !(ev_entries(m, i, acc, env, fs) matches Err(ErrClass::Undeclared(_)))
    decreases m, m.entries@.len() - i, 0nat
{
    if i < m.entries@.len() {
        let k = m.entries@.len() as int;
        match m.entries@[i].expr {
            EntryExpr::StructField(_) => {}
            EntryExpr::MapEntry(en) => {
                assert forall|nn: Seq<char>| (has_ident(en.key, nn) || has_ident(en.value, nn)) implies has_ident(e, nn) by { lemma_mentries_has(m, i, k, nn); }
                assert forall|nn: Seq<char>| (has_call(en.key, nn) || has_call(en.value, nn)) implies has_call(e, nn) by { lemma_mentries_has(m, i, k, nn); }
                lemma_all_defined_mono(e, en.key, env, env, fs, bound, bound);
                lemma_no_undeclared(en.key, env, fs, bound);
                lemma_all_defined_mono(e, en.value, env, env, fs, bound, bound);
                lemma_no_undeclared(en.value, env, fs, bound);
                match (ev(en.key, env, fs), ev(en.value, env, fs)) {
                    (Ok(kv), Ok(v)) => match to_key(kv) { Some(key) => { lemma_entries_no_undeclared(e, m, i + 1, acc.insert(key, v), env, fs, bound); }, None => {} },
                    _ => {}
                }
            }
        }
    }
}
/// along the fold the scope chain keeps defining everything the outer chain defines, plus the accumulator
pub proof fn lemma_fold_no_undeclared(e: IdedExpr, c: ComprehensionExpr, items: Seq<SVal>, i: int, env0: Env, env: Env, fs: Funcs, bound: Set<Seq<char>>)
    requires e.expr == Expr::Comprehension(c), internal_bound(e, bound), all_defined(e, env0, fs, bound), host_ok2(), env.len() > 0, 0 <= i,
        forall|m: Seq<char>| defined(env0, m) ==> defined(env, m), defined(env, c.accu_var@),
    ensures !(fold_list(c, items, i, env, fs) matches Err(ErrClass::Undeclared(_))),
        fold_list(c, items, i, env, fs) matches Ok(env2) ==> (env2.len() > 0 && defined(env2, c.accu_var@) && forall|m: Seq<char>| defined(env0, m) ==> defined(env2, m)),
    decreases c, items.len() - i, 1nat
{
    let b2 = bound.insert(c.accu_var@);
    if i < items.len() {
        lemma_all_defined_mono(e, *c.loop_cond, env0, env, fs, bound, b2);
        lemma_no_undeclared(*c.loop_cond, env, fs, b2);
        match ev(*c.loop_cond, env, fs) {
            Ok(cv) => if truthy(cv) {
                let env1 = bind(env, c.iter_var, items[i]);
                assert forall|m: Seq<char>| defined(env, m) implies defined(env1, m) by { lemma_defined_bind(env, c.iter_var, items[i], m); }
                lemma_all_defined_mono(e, *c.loop_step, env0, env1, fs, bound, b2);
                lemma_no_undeclared(*c.loop_step, env1, fs, b2);
                match ev(*c.loop_step, env1, fs) {
                    Ok(a) => {
                        let env2 = bind(env1, c.accu_var, a);
                        assert forall|m: Seq<char>| defined(env1, m) implies defined(env2, m) by { lemma_defined_bind(env1, c.accu_var, a, m); }
                        lemma_defined_bind(env1, c.accu_var, a, c.accu_var@);
                        lemma_fold_no_undeclared(e, c, items, i + 1, env0, env2, fs, bound);
                    }
                    Err(_) => {}
                }
            },
            Err(_) => {}
        }
    }
}
