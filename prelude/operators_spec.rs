// ---- the operator table of CEL (property C04: "operator text mapped by find_operator"): source spelling -> AST operator name ----
pub open spec fn is1(t: Seq<char>, a: char) -> bool { t.len() == 1 && t[0] == a }
pub open spec fn is2(t: Seq<char>, a: char, b: char) -> bool { t.len() == 2 && t[0] == a && t[1] == b }
pub open spec fn find_operator_spec(t: Seq<char>) -> Option<Seq<char>> {
    if is1(t, '-') { Some(seq!['_', '-', '_']) } else if is1(t, '+') { Some(seq!['_', '+', '_']) } else if is1(t, '*') { Some(seq!['_', '*', '_']) }
    else if is1(t, '/') { Some(seq!['_', '/', '_']) } else if is1(t, '%') { Some(seq!['_', '%', '_']) }
    else if is2(t, '=', '=') { Some(seq!['_', '=', '=', '_']) } else if is2(t, '!', '=') { Some(seq!['_', '!', '=', '_']) }
    else if is2(t, '>', '=') { Some(seq!['_', '>', '=', '_']) } else if is2(t, '<', '=') { Some(seq!['_', '<', '=', '_']) }
    else if is1(t, '>') { Some(seq!['_', '>', '_']) } else if is1(t, '<') { Some(seq!['_', '<', '_']) }
    else if is2(t, 'i', 'n') { Some(seq!['@', 'i', 'n']) }
    else { None }
}
pub proof fn lemma_operator_texts()
    ensures "-"@ == seq!['-'], "+"@ == seq!['+'], "*"@ == seq!['*'], "/"@ == seq!['/'], "%"@ == seq!['%'], "=="@ == seq!['=', '='],
        "!="@ == seq!['!', '='], ">="@ == seq!['>', '='], "<="@ == seq!['<', '='], ">"@ == seq!['>'], "<"@ == seq!['<'], "in"@ == seq!['i', 'n'],
        "_-_"@ == seq!['_', '-', '_'], "_+_"@ == seq!['_', '+', '_'], "_*_"@ == seq!['_', '*', '_'], "_/_"@ == seq!['_', '/', '_'], "_%_"@ == seq!['_', '%', '_'],
        "_==_"@ == seq!['_', '=', '=', '_'], "_!=_"@ == seq!['_', '!', '=', '_'], "_>=_"@ == seq!['_', '>', '=', '_'], "_<=_"@ == seq!['_', '<', '=', '_'],
        "_>_"@ == seq!['_', '>', '_'], "_<_"@ == seq!['_', '<', '_'], "@in"@ == seq!['@', 'i', 'n'],
{
    assert("-"@ =~= seq!['-'] && "+"@ =~= seq!['+'] && "*"@ =~= seq!['*'] && "/"@ =~= seq!['/'] && "%"@ =~= seq!['%'] && "=="@ =~= seq!['=', '='] && "!="@ =~= seq!['!', '='] && ">="@ =~= seq!['>', '=']
        && "<="@ =~= seq!['<', '='] && ">"@ =~= seq!['>'] && "<"@ =~= seq!['<'] && "in"@ =~= seq!['i', 'n']) by {
    reveal_strlit("-"); reveal_strlit("+"); reveal_strlit("*"); reveal_strlit("/"); reveal_strlit("%"); reveal_strlit("=="); reveal_strlit("!="); reveal_strlit(">=");
    reveal_strlit("<="); reveal_strlit(">"); reveal_strlit("<"); reveal_strlit("in"); }
    assert("_-_"@ =~= seq!['_', '-', '_'] && "_+_"@ =~= seq!['_', '+', '_'] && "_*_"@ =~= seq!['_', '*', '_'] && "_/_"@ =~= seq!['_', '/', '_'] && "_%_"@ =~= seq!['_', '%', '_']
        && "_==_"@ =~= seq!['_', '=', '=', '_'] && "_!=_"@ =~= seq!['_', '!', '=', '_'] && "_>=_"@ =~= seq!['_', '>', '=', '_'] && "_<=_"@ =~= seq!['_', '<', '=', '_']
        && "_>_"@ =~= seq!['_', '>', '_'] && "_<_"@ =~= seq!['_', '<', '_'] && "@in"@ =~= seq!['@', 'i', 'n']) by {
    reveal_strlit("_-_"); reveal_strlit("_+_"); reveal_strlit("_*_"); reveal_strlit("_/_"); reveal_strlit("_%_"); reveal_strlit("_==_"); reveal_strlit("_!=_");
    reveal_strlit("_>=_"); reveal_strlit("_<=_"); reveal_strlit("_>_"); reveal_strlit("_<_"); reveal_strlit("@in"); }
}
