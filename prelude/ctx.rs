//@include prelude/ctx_types.rs
pub type Env = Seq<vstd::map::Map<String, SVal>>;
pub type Funcs = vstd::map::Map<Seq<char>, Function>;

/// the function registry as a map from name to function (opaque: `HashMap<String, Function>` looked up through `Borrow<str>`)
pub uninterp spec fn registry_view(r: FunctionRegistry) -> Funcs;

pub open spec fn scopes(c: Context) -> Seq<vstd::map::Map<String, Value>>
    decreases c
{
    match c {
        Context::Root { functions, variables } => seq![variables@],
        Context::Child { parent, variables } => scopes(*parent).push(variables@),
    }
}
pub open spec fn smap(m: vstd::map::Map<String, Value>) -> vstd::map::Map<String, SVal> {
    vstd::map::Map::new(m.dom(), |k: String| vview(m[k]))
}
/// abstract scope chain, innermost scope last, values already viewed
pub open spec fn env_view(c: Context) -> Env {
    Seq::new(scopes(c).len(), |i: int| smap(scopes(c)[i]))
}
pub open spec fn funcs_of(c: Context) -> Funcs
    decreases c
{
    match c {
        Context::Root { functions, variables } => registry_view(functions),
        Context::Child { parent, variables } => funcs_of(*parent),
    }
}
pub open spec fn alookup(s: Env, name: String) -> Option<SVal>
    decreases s.len()
{
    if s.len() == 0 { None } else if s.last().contains_key(name) { Some(s.last()[name]) } else { alookup(s.drop_last(), name) }
}
/// (re)define `name` in the innermost scope; every other key and every outer scope unchanged
pub open spec fn bind(env: Env, name: String, v: SVal) -> Env
    recommends env.len() > 0
{
    env.drop_last().push(env.last().insert(name, v))
}
pub proof fn lemma_env_nonempty(c: Context)
    ensures env_view(c).len() > 0, scopes(c).len() > 0
    decreases c
{
    match c { Context::Root { .. } => {}, Context::Child { parent, .. } => { lemma_env_nonempty(*parent); } }
}
