// ---- `str` methods that are generic over `Pattern` (ASSUMED: std's documented behaviour for `char` and `&str` patterns; any other
// pattern kind stays uninterpreted, so nothing can be concluded through it) ----
#[verifier::allow(undeclared_external_trait)]
pub mod axs {
    use super::*;
    pub uninterp spec fn pat_starts<P>(s: Seq<char>, p: P) -> bool;
    pub uninterp spec fn pat_ends<P>(s: Seq<char>, p: P) -> bool;
    pub uninterp spec fn pat_contains<P>(s: Seq<char>, p: P) -> bool;
    pub uninterp spec fn pat_strip_prefix<P>(s: Seq<char>, p: P) -> Option<Seq<char>>;
    pub uninterp spec fn pat_strip_suffix<P>(s: Seq<char>, p: P) -> Option<Seq<char>>;
    pub uninterp spec fn pat_trim_start<P>(s: Seq<char>, p: P) -> Seq<char>;
    pub uninterp spec fn pat_trim_end<P>(s: Seq<char>, p: P) -> Seq<char>;
    pub uninterp spec fn pat_trim<P>(s: Seq<char>, p: P) -> Seq<char>;
    pub open spec fn trim_start_char(s: Seq<char>, c: char) -> Seq<char> decreases s.len() {
        if s.len() > 0 && s[0] == c { trim_start_char(s.drop_first(), c) } else { s }
    }
    pub open spec fn trim_end_char(s: Seq<char>, c: char) -> Seq<char> decreases s.len() {
        if s.len() > 0 && s.last() == c { trim_end_char(s.drop_last(), c) } else { s }
    }
    pub open spec fn seq_has_sub(s: Seq<char>, t: Seq<char>) -> bool {
        exists|i: int| 0 <= i && i + t.len() <= s.len() && #[trigger] s.subrange(i, i + t.len()) == t
    }
    pub open spec fn is_suffix_of(t: Seq<char>, s: Seq<char>) -> bool {
        t.len() <= s.len() && s.subrange(s.len() - t.len(), s.len() as int) == t
    }
    pub assume_specification<P: std::str::pattern::Pattern>[str::starts_with](s: &str, p: P) -> (r: bool) ensures r == pat_starts(s@, p);
    pub assume_specification<P: std::str::pattern::Pattern>[str::ends_with](s: &str, p: P) -> (r: bool)
        where for<'a> P::Searcher<'a>: std::str::pattern::ReverseSearcher<'a>
        ensures r == pat_ends(s@, p);
    pub assume_specification<P: std::str::pattern::Pattern>[str::contains](s: &str, p: P) -> (r: bool) ensures r == pat_contains(s@, p);
    pub assume_specification<'b, P: std::str::pattern::Pattern>[str::strip_prefix](s: &'b str, p: P) -> (r: Option<&'b str>)
        ensures match pat_strip_prefix(s@, p) { Some(t) => r is Some && r->Some_0@ == t, None => r is None };
    pub assume_specification<'b, P: std::str::pattern::Pattern>[str::strip_suffix](s: &'b str, p: P) -> (r: Option<&'b str>)
        where for<'a> P::Searcher<'a>: std::str::pattern::ReverseSearcher<'a>
        ensures match pat_strip_suffix(s@, p) { Some(t) => r is Some && r->Some_0@ == t, None => r is None };
    pub assume_specification<'b, P: std::str::pattern::Pattern>[str::trim_start_matches](s: &'b str, p: P) -> (r: &'b str)
        ensures r@ == pat_trim_start(s@, p);
    pub assume_specification<'b, P: std::str::pattern::Pattern>[str::trim_end_matches](s: &'b str, p: P) -> (r: &'b str)
        where for<'a> P::Searcher<'a>: std::str::pattern::ReverseSearcher<'a>
        ensures r@ == pat_trim_end(s@, p);
    pub assume_specification<'b, P: std::str::pattern::Pattern>[str::trim_matches](s: &'b str, p: P) -> (r: &'b str)
        where for<'a> P::Searcher<'a>: std::str::pattern::DoubleEndedSearcher<'a>
        ensures r@ == pat_trim(s@, p);
    #[verifier::external_body]
    pub broadcast proof fn axiom_char_starts(s: Seq<char>, c: char)
        ensures #[trigger] pat_starts::<char>(s, c) == (s.len() > 0 && s[0] == c) {}
    #[verifier::external_body]
    pub broadcast proof fn axiom_str_starts(s: Seq<char>, t: &str)
        ensures #[trigger] pat_starts::<&str>(s, t) == t@.is_prefix_of(s) {}
    #[verifier::external_body]
    pub broadcast proof fn axiom_char_ends(s: Seq<char>, c: char)
        ensures #[trigger] pat_ends::<char>(s, c) == (s.len() > 0 && s.last() == c) {}
    #[verifier::external_body]
    pub broadcast proof fn axiom_str_ends(s: Seq<char>, t: &str)
        ensures #[trigger] pat_ends::<&str>(s, t) == is_suffix_of(t@, s) {}
    #[verifier::external_body]
    pub broadcast proof fn axiom_char_contains(s: Seq<char>, c: char)
        ensures #[trigger] pat_contains::<char>(s, c) == s.contains(c) {}
    #[verifier::external_body]
    pub broadcast proof fn axiom_str_contains(s: Seq<char>, t: &str)
        ensures #[trigger] pat_contains::<&str>(s, t) == seq_has_sub(s, t@) {}
    #[verifier::external_body]
    pub broadcast proof fn axiom_char_strip_prefix(s: Seq<char>, c: char)
        ensures #[trigger] pat_strip_prefix::<char>(s, c) == (if s.len() > 0 && s[0] == c { Some(s.drop_first()) } else { None::<Seq<char>> }) {}
    #[verifier::external_body]
    pub broadcast proof fn axiom_str_strip_prefix(s: Seq<char>, t: &str)
        ensures #[trigger] pat_strip_prefix::<&str>(s, t) == (if t@.is_prefix_of(s) { Some(s.skip(t@.len() as int)) } else { None::<Seq<char>> }) {}
    #[verifier::external_body]
    pub broadcast proof fn axiom_char_strip_suffix(s: Seq<char>, c: char)
        ensures #[trigger] pat_strip_suffix::<char>(s, c) == (if s.len() > 0 && s.last() == c { Some(s.drop_last()) } else { None::<Seq<char>> }) {}
    #[verifier::external_body]
    pub broadcast proof fn axiom_str_strip_suffix(s: Seq<char>, t: &str)
        ensures #[trigger] pat_strip_suffix::<&str>(s, t) == (if is_suffix_of(t@, s) { Some(s.take(s.len() - t@.len())) } else { None::<Seq<char>> }) {}
    #[verifier::external_body]
    pub broadcast proof fn axiom_char_trim_start(s: Seq<char>, c: char)
        ensures #[trigger] pat_trim_start::<char>(s, c) == trim_start_char(s, c) {}
    #[verifier::external_body]
    pub broadcast proof fn axiom_char_trim_end(s: Seq<char>, c: char)
        ensures #[trigger] pat_trim_end::<char>(s, c) == trim_end_char(s, c) {}
    #[verifier::external_body]
    pub broadcast proof fn axiom_char_trim(s: Seq<char>, c: char)
        ensures #[trigger] pat_trim::<char>(s, c) == trim_end_char(trim_start_char(s, c), c) {}
    pub broadcast group group_str_patterns {
        axiom_char_starts, axiom_str_starts, axiom_char_ends, axiom_str_ends, axiom_char_contains, axiom_str_contains,
        axiom_char_strip_prefix, axiom_str_strip_prefix, axiom_char_strip_suffix, axiom_str_strip_suffix,
        axiom_char_trim_start, axiom_char_trim_end, axiom_char_trim,
    }
}
pub use axs::*;
broadcast use axs::group_str_patterns;
