// ---- lemmas for the literal decoders ----
pub open spec fn acc_dec(acc: Seq<char>, d: Option<Seq<char>>) -> Option<Seq<char>> { match d { Some(w) => Some(acc + w), None => None } }
pub open spec fn lit_is(r: Result<String, ParseSequenceError>, want: Option<Seq<char>>) -> bool {
    match want { Some(w) => r matches Ok(o) && o@ == w, None => r is Err }
}
/// inside the quotes: `cur` = what is left of the token (body suffix + closing quote), `res` = decoded so far
pub open spec fn phase_a(cur: Seq<char>, q: char, res: Seq<char>, target: Option<Seq<char>>, cross_ok: bool) -> bool {
    cur.len() >= 1 && cur.last() == q && wf_body(cur.drop_last(), Some(q)) && (cross_ok || !has_cross_quote(cur.drop_last(), q))
    && target == acc_dec(res, dec(cur.drop_last()))
}
pub proof fn lemma_dec_verbatim(t: Seq<char>, acc: Seq<char>)
    requires t.len() > 0, t[0] != '\\'
    ensures acc_dec(acc, dec(t)) == acc_dec(acc.push(t[0]), dec(t.skip(1)))
{
    match dec(t.skip(1)) { Some(r) => { assert(acc + (seq![t[0]] + r) =~= acc.push(t[0]) + r); } None => {} }
}
pub proof fn lemma_dec_escape(t: Seq<char>, acc: Seq<char>)
    requires t.len() > 0, t[0] == '\\', esc_cp(t) is Some
    ensures ({ let p = esc_cp(t)->Some_0;
        2 <= p.0 <= t.len()
        && (is_scalar(p.1) ==> acc_dec(acc, dec(t)) == acc_dec(acc.push(chr(p.1)), dec(t.skip(p.0))))
        && (!is_scalar(p.1) ==> dec(t) is None) })
{
    let p = esc_cp(t)->Some_0;
    if is_scalar(p.1) { match dec(t.skip(p.0)) { Some(r) => { assert(acc + (seq![chr(p.1)] + r) =~= acc.push(chr(p.1)) + r); } None => {} } }
}
pub proof fn lemma_cur(cur: Seq<char>, n: int)
    requires 0 <= n < cur.len()
    ensures cur.skip(n).drop_last() =~= cur.drop_last().skip(n), cur.skip(n).last() == cur.last(), cur.skip(n).len() >= 1,
            cur.drop_last().len() == cur.len() - 1,
            forall|i: int| 0 <= i < cur.len() - 1 ==> cur.drop_last()[i] == cur[i],
{}
/// one step of the three recursive predicates at a non-empty body
pub proof fn lemma_unfold(t: Seq<char>, q: char)
    requires t.len() > 0
    ensures
        t[0] != '\\' ==> (wf_body(t, Some(q)) == (t[0] != q && wf_body(t.skip(1), Some(q)))) && (has_cross_quote(t, q) == has_cross_quote(t.skip(1), q)),
        (t[0] == '\\' && wf_body(t, Some(q))) ==> (esc_cp(t) is Some && wf_body(t.skip(esc_cp(t)->Some_0.0), Some(q))
            && (has_cross_quote(t, q) == (((t[1] == '"' || t[1] == '\'') && t[1] != q) || has_cross_quote(t.skip(esc_cp(t)->Some_0.0), q)))),
{}
pub proof fn lemma_dec_verbatim_or_escape(t: Seq<char>, acc: Seq<char>)
    requires t.len() > 0
    ensures
        t[0] != '\\' ==> acc_dec(acc, dec(t)) == acc_dec(acc.push(t[0]), dec(t.skip(1))),
        (t[0] == '\\' && esc_cp(t) is Some) ==> ({ let p = esc_cp(t)->Some_0;
            2 <= p.0 <= t.len()
            && (is_scalar(p.1) ==> acc_dec(acc, dec(t)) == acc_dec(acc.push(chr(p.1)), dec(t.skip(p.0))))
            && (!is_scalar(p.1) ==> dec(t) is None) }),
{
    if t[0] != '\\' { lemma_dec_verbatim(t, acc); } else if esc_cp(t) is Some { lemma_dec_escape(t, acc); }
}
pub proof fn lemma_simple_esc_chars()
    ensures chr(7) == '\u{07}', chr(8) == '\u{08}', chr(11) == '\u{0B}', chr(12) == '\u{0C}', chr(10) == '\n', chr(13) == '\r', chr(9) == '\t',
            chr('\\' as int) == '\\', chr('?' as int) == '?', chr('\'' as int) == '\'', chr('"' as int) == '"', chr('`' as int) == '`',
{
    lit_ax::axiom_chr_of_char('\u{07}'); lit_ax::axiom_chr_of_char('\u{08}'); lit_ax::axiom_chr_of_char('\u{0B}'); lit_ax::axiom_chr_of_char('\u{0C}');
    lit_ax::axiom_chr_of_char('\n'); lit_ax::axiom_chr_of_char('\r'); lit_ax::axiom_chr_of_char('\t'); lit_ax::axiom_chr_of_char('\\');
    lit_ax::axiom_chr_of_char('?'); lit_ax::axiom_chr_of_char('\''); lit_ax::axiom_chr_of_char('"'); lit_ax::axiom_chr_of_char('`');
}
/// inside a one-line raw literal: `cur` = rest of the token, everything before it has been copied
pub open spec fn raw_in(cur: Seq<char>, q: char, res: Seq<char>, target: Seq<char>) -> bool {
    cur.len() >= 1 && cur.last() == q && no_char(cur.drop_last(), q) && raw_scan_ok(cur.drop_last()) && res + cur.drop_last() == target
}
pub proof fn lemma_raw_step(t: Seq<char>, q: char, acc: Seq<char>)
    requires t.len() > 0, no_char(t, q), raw_scan_ok(t)
    ensures
        t[0] != q,
        t[0] != '\\' ==> no_char(t.skip(1), q) && raw_scan_ok(t.skip(1)) && acc + t =~= acc.push(t[0]) + t.skip(1),
        t[0] == '\\' ==> t.len() >= 2 && t[1] != q && no_char(t.skip(2), q) && raw_scan_ok(t.skip(2)) && acc + t =~= acc.push(t[0]).push(t[1]) + t.skip(2),
{}
// ---- bytes ----
pub open spec fn accb(acc: Seq<u8>, d: Option<Seq<u8>>) -> Option<Seq<u8>> { match d { Some(w) => Some(acc + w), None => None } }
pub proof fn lemma_bytes_step(t: Seq<char>, acc: Seq<u8>)
    requires t.len() > 0, wf_body(t, None)
    ensures
        t[0] != '\\' ==> wf_body(t.skip(1), None) && accb(acc, dec_bytes(t)) == accb(acc + utf8_bytes(t[0]), dec_bytes(t.skip(1))),
        t[0] == '\\' ==> (esc_cp(t) is Some && t.len() >= 2 && ({ let n = esc_cp(t)->Some_0.0;
            2 <= n <= t.len() && wf_body(t.skip(n), None)
            && (esc_byte(t) is None ==> dec_bytes(t) is None)
            && (esc_byte(t) is Some ==> esc_byte(t)->Some_0.0 == n
                && accb(acc, dec_bytes(t)) == accb(acc.push(esc_byte(t)->Some_0.1 as u8), dec_bytes(t.skip(n)))) })),
{
    if t[0] != '\\' {
        match dec_bytes(t.skip(1)) { Some(r) => { assert(acc + (utf8_bytes(t[0]) + r) =~= (acc + utf8_bytes(t[0])) + r); } None => {} }
    } else {
        let n = esc_cp(t)->Some_0.0;
        if esc_byte(t) is Some {
            let b = esc_byte(t)->Some_0.1 as u8;
            match dec_bytes(t.skip(n)) { Some(r) => { assert(acc + (seq![b] + r) =~= acc.push(b) + r); } None => {} }
        }
    }
}
