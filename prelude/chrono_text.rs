// ---- chrono: RFC 3339 text and the UTC zone (ASSUMED contracts; included by the groups that convert timestamps to / from text) ----
pub mod chrono_text {
    use super::*;
    use super::chrono::*;
    #[verifier::external_type_specification] #[verifier::external_body] pub struct ExUtc(Utc);
    #[verifier::external_type_specification] #[verifier::external_body] pub struct ExParseError(ParseError);
    /// the RFC 3339 rendering of a timestamp at its own offset (`to_rfc3339`) and chrono's RFC 3339 parser, as functions of the text
    pub uninterp spec fn text_of(t: DateTime<FixedOffset>) -> Seq<char>;
    pub uninterp spec fn parse_text(s: Seq<char>) -> Option<DateTime<FixedOffset>>;
    /// instants of the UTC-zoned type; converting to UTC keeps the instant and forgets the offset
    pub uninterp spec fn utc_ns(t: DateTime<Utc>) -> int;
    pub uninterp spec fn utc_of(t: DateTime<FixedOffset>) -> DateTime<Utc>;
    pub uninterp spec fn fixed_of(t: DateTime<Utc>) -> DateTime<FixedOffset>;
    pub use crate::parse_spec::parse_of;
    /// years 0001-9999 and an offset of whole minutes: the timestamps RFC 3339 text can spell exactly
    pub uninterp spec fn rfc3339_exact(t: DateTime<FixedOffset>) -> bool;
    #[verifier::external_body]
    pub proof fn axiom_chrono_text()
        ensures
            // chrono parses back what it prints (ASSUMED; chrono's own test-suite property)
            forall|t: DateTime<FixedOffset>| rfc3339_exact(t) ==> parse_text(#[trigger] text_of(t)) == Some(t),
            forall|t: DateTime<FixedOffset>| utc_ns(#[trigger] utc_of(t)) == ts_ns(t),
            forall|u: DateTime<Utc>| ts_ns(#[trigger] fixed_of(u)) == utc_ns(u) && ts_off(fixed_of(u)) == 0,
            forall|s: Seq<char>| #[trigger] parse_of::<DateTime<FixedOffset>>(s) == parse_text(s),
            forall|s: Seq<char>| #[trigger] parse_of::<DateTime<Utc>>(s) == (match parse_text(s) { Some(t) => Some(utc_of(t)), None => None::<DateTime<Utc>> }),
    {}
    /// chrono::SecondsFormat and `to_rfc3339_opts`: only `AutoSi` without `Z` is the text `to_rfc3339` prints; the other formats drop or pad
    /// sub-second digits (uninterpreted: nothing is known about them)
    pub uninterp spec fn text_opts(t: DateTime<FixedOffset>, f: SecondsFormat, use_z: bool) -> Seq<char>;
    #[verifier::external_body]
    pub proof fn axiom_text_opts() ensures forall|t: DateTime<FixedOffset>| #[trigger] text_opts(t, SecondsFormat::AutoSi, false) == text_of(t) {}
    impl DateTime<FixedOffset> {
        #[verifier::external_body] pub fn to_rfc3339_opts(&self, f: SecondsFormat, use_z: bool) -> (r: String) ensures r@ == text_opts(*self, f, use_z) { unimplemented!() }
        #[verifier::external_body] pub fn parse_from_rfc3339(s: &str) -> (r: Result<DateTime<FixedOffset>, ParseError>)
            ensures match parse_text(s@) { Some(t) => r == Ok::<DateTime<FixedOffset>, ParseError>(t), None => r is Err } { unimplemented!() }
        #[verifier::external_body] pub fn to_rfc3339(&self) -> (r: String) ensures r@ == text_of(*self) { unimplemented!() }
        #[verifier::external_body] pub fn to_utc(&self) -> (r: DateTime<Utc>) ensures r == utc_of(*self) { unimplemented!() }
        #[verifier::external_body] pub fn with_timezone(&self, tz: &Utc) -> (r: DateTime<Utc>) ensures r == utc_of(*self) { unimplemented!() }
        #[verifier::external_body] pub fn fixed_offset(&self) -> (r: DateTime<FixedOffset>) ensures r == *self { unimplemented!() }
    }
    impl DateTime<Utc> {
        #[verifier::external_body] pub fn fixed_offset(&self) -> (r: DateTime<FixedOffset>) ensures r == fixed_of(*self) { unimplemented!() }
        #[verifier::external_body] pub fn to_rfc3339(&self) -> (r: String) ensures r@ == text_of(fixed_of(*self)) { unimplemented!() }
    }
    impl vstd::std_specs::convert::FromSpecImpl<DateTime<Utc>> for DateTime<FixedOffset> { open spec fn obeys_from_spec() -> bool { true } open spec fn from_spec(v: DateTime<Utc>) -> DateTime<FixedOffset> { fixed_of(v) } }
    impl From<DateTime<Utc>> for DateTime<FixedOffset> { #[verifier::external_body] fn from(v: DateTime<Utc>) -> (r: DateTime<FixedOffset>) { unimplemented!() } }
    impl vstd::std_specs::convert::FromSpecImpl<DateTime<FixedOffset>> for DateTime<Utc> { open spec fn obeys_from_spec() -> bool { true } open spec fn from_spec(v: DateTime<FixedOffset>) -> DateTime<Utc> { utc_of(v) } }
    impl From<DateTime<FixedOffset>> for DateTime<Utc> { #[verifier::external_body] fn from(v: DateTime<FixedOffset>) -> (r: DateTime<Utc>) { unimplemented!() } }
    #[verifier::external_body] pub fn __parse_error_text(e: &ParseError) -> String { unimplemented!() }
}
