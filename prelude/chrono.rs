// ---- stand-in declarations for the chrono dependency (ASSUMED contracts, never proved) ----
// The real types are opaque to the verifier; each operation is an external_body function whose
// contract is chrono's documented behaviour.  `dur_ns` / `ts_ns` are the mathematical instants.
pub mod chrono {
    use super::*;
    pub use crate::chrono_types::{DateTime, FixedOffset, Duration};
    #[verifier::external_type_specification]
    #[verifier::external_body]
    #[verifier::accept_recursive_types(Tz)]
    pub struct ExDateTime<Tz>(DateTime<Tz>);
    #[verifier::external_type_specification]
    #[verifier::external_body]
    pub struct ExFixedOffset(FixedOffset);
    #[verifier::external_type_specification]
    #[verifier::external_body]
    pub struct ExDuration(Duration);
    pub type TimeDelta = Duration;
    pub assume_specification[<Duration as Clone>::clone](d: &Duration) -> (r: Duration) ensures r == *d;
    pub assume_specification<Tz: Clone>[<DateTime<Tz> as Clone>::clone](d: &DateTime<Tz>) -> (r: DateTime<Tz>) ensures r == *d;

    /// total length in nanoseconds (chrono stores secs + nanos; range is about +-9.2e18 ms)
    pub uninterp spec fn dur_ns(d: Duration) -> int;
    /// nanoseconds since the Unix epoch of the instant
    pub uninterp spec fn ts_ns(t: DateTime<FixedOffset>) -> int;
    /// offset east of UTC in seconds
    pub uninterp spec fn ts_off(t: DateTime<FixedOffset>) -> int;
    pub open spec fn dur_ok(n: int) -> bool { -9223372036854775807000000 <= n <= 9223372036854775807000000 }
    /// representable instants: chrono's NaiveDate range (years -262143..=262142) — abstract bound
    pub uninterp spec fn ts_ok(n: int) -> bool;

    impl Duration {
        #[verifier::external_body]
        pub fn num_nanoseconds(&self) -> (r: Option<i64>)
            ensures r == (if i64::MIN <= dur_ns(*self) <= i64::MAX { Some(dur_ns(*self) as i64) } else { None::<i64> })
        { unimplemented!() }
        #[verifier::external_body]
        pub fn nanoseconds(n: i64) -> (r: Duration) ensures dur_ns(r) == n as int { unimplemented!() }
        #[verifier::external_body]
        pub fn checked_add(&self, rhs: &Duration) -> (r: Option<Duration>)
            ensures match r { Some(d) => dur_ok(dur_ns(*self) + dur_ns(*rhs)) && dur_ns(d) == dur_ns(*self) + dur_ns(*rhs),
                              None => !dur_ok(dur_ns(*self) + dur_ns(*rhs)) }
        { unimplemented!() }
        #[verifier::external_body]
        pub fn checked_sub(&self, rhs: &Duration) -> (r: Option<Duration>)
            ensures match r { Some(d) => dur_ok(dur_ns(*self) - dur_ns(*rhs)) && dur_ns(d) == dur_ns(*self) - dur_ns(*rhs),
                              None => !dur_ok(dur_ns(*self) - dur_ns(*rhs)) }
        { unimplemented!() }
    }
    impl DateTime<FixedOffset> {
        #[verifier::external_body]
        pub fn timestamp_nanos_opt(&self) -> (r: Option<i64>)
            ensures r == (if i64::MIN <= ts_ns(*self) <= i64::MAX { Some(ts_ns(*self) as i64) } else { None::<i64> })
        { unimplemented!() }
        #[verifier::external_body]
        pub fn checked_add_signed(self, rhs: Duration) -> (r: Option<DateTime<FixedOffset>>)
            ensures match r { Some(t) => ts_ok(ts_ns(self) + dur_ns(rhs)) && ts_ns(t) == ts_ns(self) + dur_ns(rhs) && ts_off(t) == ts_off(self),
                              None => !ts_ok(ts_ns(self) + dur_ns(rhs)) }
        { unimplemented!() }
        #[verifier::external_body]
        pub fn checked_sub_signed(self, rhs: Duration) -> (r: Option<DateTime<FixedOffset>>)
            ensures match r { Some(t) => ts_ok(ts_ns(self) - dur_ns(rhs)) && ts_ns(t) == ts_ns(self) - dur_ns(rhs) && ts_off(t) == ts_off(self),
                              None => !ts_ok(ts_ns(self) - dur_ns(rhs)) }
        { unimplemented!() }
        #[verifier::external_body]
        pub fn signed_duration_since(self, rhs: DateTime<FixedOffset>) -> (r: Duration)
            ensures dur_ns(r) == ts_ns(self) - ts_ns(rhs)
        { unimplemented!() }
    }
    // operator forms: chrono implements them as `checked_*().expect(..)`, i.e. they PANIC on overflow.
    impl vstd::std_specs::ops::AddSpecImpl<Duration> for Duration {
        open spec fn obeys_add_spec() -> bool { false }
        open spec fn add_req(self, rhs: Duration) -> bool { dur_ok(dur_ns(self) + dur_ns(rhs)) }
        open spec fn add_spec(self, rhs: Duration) -> Duration { arbitrary() }
    }
    impl std::ops::Add<Duration> for Duration { type Output = Duration;
        #[verifier::external_body]
        fn add(self, rhs: Duration) -> (r: Duration) ensures dur_ns(r) == dur_ns(self) + dur_ns(rhs) { unimplemented!() } }
    impl vstd::std_specs::ops::SubSpecImpl<Duration> for Duration {
        open spec fn obeys_sub_spec() -> bool { false }
        open spec fn sub_req(self, rhs: Duration) -> bool { dur_ok(dur_ns(self) - dur_ns(rhs)) }
        open spec fn sub_spec(self, rhs: Duration) -> Duration { arbitrary() }
    }
    impl std::ops::Sub<Duration> for Duration { type Output = Duration;
        #[verifier::external_body]
        fn sub(self, rhs: Duration) -> (r: Duration) ensures dur_ns(r) == dur_ns(self) - dur_ns(rhs) { unimplemented!() } }
    impl vstd::std_specs::ops::AddSpecImpl<Duration> for DateTime<FixedOffset> {
        open spec fn obeys_add_spec() -> bool { false }
        open spec fn add_req(self, rhs: Duration) -> bool { ts_ok(ts_ns(self) + dur_ns(rhs)) }
        open spec fn add_spec(self, rhs: Duration) -> DateTime<FixedOffset> { arbitrary() }
    }
    impl std::ops::Add<Duration> for DateTime<FixedOffset> { type Output = DateTime<FixedOffset>;
        #[verifier::external_body]
        fn add(self, rhs: Duration) -> (r: DateTime<FixedOffset>) ensures ts_ns(r) == ts_ns(self) + dur_ns(rhs), ts_off(r) == ts_off(self) { unimplemented!() } }
    impl vstd::std_specs::ops::SubSpecImpl<Duration> for DateTime<FixedOffset> {
        open spec fn obeys_sub_spec() -> bool { false }
        open spec fn sub_req(self, rhs: Duration) -> bool { ts_ok(ts_ns(self) - dur_ns(rhs)) }
        open spec fn sub_spec(self, rhs: Duration) -> DateTime<FixedOffset> { arbitrary() }
    }
    impl std::ops::Sub<Duration> for DateTime<FixedOffset> { type Output = DateTime<FixedOffset>;
        #[verifier::external_body]
        fn sub(self, rhs: Duration) -> (r: DateTime<FixedOffset>) ensures ts_ns(r) == ts_ns(self) - dur_ns(rhs), ts_off(r) == ts_off(self) { unimplemented!() } }
    impl vstd::std_specs::ops::SubSpecImpl<DateTime<FixedOffset>> for DateTime<FixedOffset> {
        open spec fn obeys_sub_spec() -> bool { false }
        open spec fn sub_req(self, rhs: DateTime<FixedOffset>) -> bool { true }   // signed_duration_since never overflows inside chrono's date range
        open spec fn sub_spec(self, rhs: DateTime<FixedOffset>) -> Duration { arbitrary() }
    }
    impl std::ops::Sub<DateTime<FixedOffset>> for DateTime<FixedOffset> { type Output = Duration;
        #[verifier::external_body]
        fn sub(self, rhs: DateTime<FixedOffset>) -> (r: Duration) ensures dur_ns(r) == ts_ns(self) - ts_ns(rhs) { unimplemented!() } }
}
