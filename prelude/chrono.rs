// ---- stand-in declarations for the chrono dependency (ASSUMED contracts, never proved) ----
// The real types are opaque to the verifier; each operation is an external_body function whose
// contract is chrono's documented behaviour.  `dur_ns` / `ts_ns` are the mathematical instants.
pub mod chrono {
    use super::*;
    pub use crate::chrono_types::{DateTime, FixedOffset, Duration, Utc, ParseError};
    #[verifier::external_type_specification]
    #[verifier::external_body]
    #[verifier::accept_recursive_types(Tz)]
    pub struct ExDateTime<Tz>(DateTime<Tz>);
    #[verifier::external_type_specification]
    #[verifier::external_body]
    pub struct ExFixedOffset(FixedOffset);
    #[verifier::external_type_specification]
    #[verifier::external_body]
    pub struct ExDuration(Duration);
    pub type TimeDelta = Duration;
    pub enum SecondsFormat { Secs, Millis, Micros, Nanos, AutoSi }
    pub assume_specification[<Duration as Clone>::clone](d: &Duration) -> (r: Duration) ensures r == *d;
    pub assume_specification<Tz: Clone>[<DateTime<Tz> as Clone>::clone](d: &DateTime<Tz>) -> (r: DateTime<Tz>) ensures r == *d;

    /// total length in nanoseconds (chrono stores secs + nanos; range is about +-9.2e18 ms)
    pub uninterp spec fn dur_ns(d: Duration) -> int;
    /// nanoseconds since the Unix epoch of the instant
    pub uninterp spec fn ts_ns(t: DateTime<FixedOffset>) -> int;
    /// offset east of UTC in seconds
    pub uninterp spec fn ts_off(t: DateTime<FixedOffset>) -> int;
    pub open spec fn dur_ok(n: int) -> bool { -9223372036854775807000000 <= n <= 9223372036854775807000000 }
    /// representable instants: chrono's NaiveDate range (years -262143..=262142) — abstract bound
    pub uninterp spec fn ts_ok(n: int) -> bool;

    impl Duration {
        #[verifier::external_body]
        pub fn num_nanoseconds(&self) -> (r: Option<i64>)
            ensures r == (if i64::MIN <= dur_ns(*self) <= i64::MAX { Some(dur_ns(*self) as i64) } else { None::<i64> })
        { unimplemented!() }
        #[verifier::external_body]
        pub fn nanoseconds(n: i64) -> (r: Duration) ensures dur_ns(r) == n as int { unimplemented!() }
        #[verifier::external_body]
        pub fn zero() -> (r: Duration) ensures dur_ns(r) == 0 { unimplemented!() }
        /// `Duration::seconds`: PANICS when the value is outside chrono's range (|secs| > i64::MAX / 1000); `try_seconds` returns None there
        #[verifier::external_body]
        pub fn seconds(s: i64) -> (r: Duration) requires dur_ok(s as int * 1_000_000_000) ensures dur_ns(r) == s as int * 1_000_000_000 { unimplemented!() }
        #[verifier::external_body]
        pub fn try_seconds(s: i64) -> (r: Option<Duration>)
            ensures match r { Some(d) => dur_ok(s as int * 1_000_000_000) && dur_ns(d) == s as int * 1_000_000_000, None => !dur_ok(s as int * 1_000_000_000) }
        { unimplemented!() }
        /// whole seconds, truncated toward zero, and the remaining nanoseconds carrying the same sign (chrono: `num_seconds`, `subsec_nanos`)
        #[verifier::external_body]
        pub fn num_seconds(&self) -> (r: i64)
            ensures r == (if dur_ns(*self) >= 0 { dur_ns(*self) / 1_000_000_000 } else { -((-dur_ns(*self)) / 1_000_000_000) })
        { unimplemented!() }
        #[verifier::external_body]
        pub fn subsec_nanos(&self) -> (r: i32)
            ensures r == (if dur_ns(*self) >= 0 { dur_ns(*self) % 1_000_000_000 } else { -((-dur_ns(*self)) % 1_000_000_000) })
        { unimplemented!() }
        #[verifier::external_body]
        pub fn num_milliseconds(&self) -> (r: i64)
            ensures r == (if dur_ns(*self) >= 0 { dur_ns(*self) / 1_000_000 } else { -((-dur_ns(*self)) / 1_000_000) })
        { unimplemented!() }
        #[verifier::external_body]
        pub fn checked_add(&self, rhs: &Duration) -> (r: Option<Duration>)
            ensures match r { Some(d) => dur_ok(dur_ns(*self) + dur_ns(*rhs)) && dur_ns(d) == dur_ns(*self) + dur_ns(*rhs),
                              None => !dur_ok(dur_ns(*self) + dur_ns(*rhs)) }
        { unimplemented!() }
        #[verifier::external_body]
        pub fn checked_sub(&self, rhs: &Duration) -> (r: Option<Duration>)
            ensures match r { Some(d) => dur_ok(dur_ns(*self) - dur_ns(*rhs)) && dur_ns(d) == dur_ns(*self) - dur_ns(*rhs),
                              None => !dur_ok(dur_ns(*self) - dur_ns(*rhs)) }
        { unimplemented!() }
    }
    impl DateTime<FixedOffset> {
        #[verifier::external_body]
        pub fn timestamp_nanos_opt(&self) -> (r: Option<i64>)
            ensures r == (if i64::MIN <= ts_ns(*self) <= i64::MAX { Some(ts_ns(*self) as i64) } else { None::<i64> })
        { unimplemented!() }
        #[verifier::external_body]
        pub fn checked_add_signed(self, rhs: Duration) -> (r: Option<DateTime<FixedOffset>>)
            ensures match r { Some(t) => ts_ok(ts_ns(self) + dur_ns(rhs)) && ts_ns(t) == ts_ns(self) + dur_ns(rhs) && ts_off(t) == ts_off(self),
                              None => !ts_ok(ts_ns(self) + dur_ns(rhs)) }
        { unimplemented!() }
        #[verifier::external_body]
        pub fn checked_sub_signed(self, rhs: Duration) -> (r: Option<DateTime<FixedOffset>>)
            ensures match r { Some(t) => ts_ok(ts_ns(self) - dur_ns(rhs)) && ts_ns(t) == ts_ns(self) - dur_ns(rhs) && ts_off(t) == ts_off(self),
                              None => !ts_ok(ts_ns(self) - dur_ns(rhs)) }
        { unimplemented!() }
        #[verifier::external_body]
        pub fn signed_duration_since(self, rhs: DateTime<FixedOffset>) -> (r: Duration)
            ensures dur_ns(r) == ts_ns(self) - ts_ns(rhs)
        { unimplemented!() }
    }
    // operator forms: chrono implements them as `checked_*().expect(..)`, i.e. they PANIC on overflow.
    impl vstd::std_specs::ops::AddSpecImpl<Duration> for Duration {
        open spec fn obeys_add_spec() -> bool { false }
        open spec fn add_req(self, rhs: Duration) -> bool { dur_ok(dur_ns(self) + dur_ns(rhs)) }
        open spec fn add_spec(self, rhs: Duration) -> Duration { arbitrary() }
    }
    impl std::ops::Add<Duration> for Duration { type Output = Duration;
        #[verifier::external_body]
        fn add(self, rhs: Duration) -> (r: Duration) ensures dur_ns(r) == dur_ns(self) + dur_ns(rhs) { unimplemented!() } }
    impl vstd::std_specs::ops::SubSpecImpl<Duration> for Duration {
        open spec fn obeys_sub_spec() -> bool { false }
        open spec fn sub_req(self, rhs: Duration) -> bool { dur_ok(dur_ns(self) - dur_ns(rhs)) }
        open spec fn sub_spec(self, rhs: Duration) -> Duration { arbitrary() }
    }
    impl std::ops::Sub<Duration> for Duration { type Output = Duration;
        #[verifier::external_body]
        fn sub(self, rhs: Duration) -> (r: Duration) ensures dur_ns(r) == dur_ns(self) - dur_ns(rhs) { unimplemented!() } }
    // `Duration * i32`: chrono implements it as `checked_mul(..).expect(..)`: PANICS on overflow
    impl vstd::std_specs::ops::MulSpecImpl<i32> for Duration {
        open spec fn obeys_mul_spec() -> bool { false }
        open spec fn mul_req(self, rhs: i32) -> bool { dur_ok(dur_ns(self) * rhs as int) }
        open spec fn mul_spec(self, rhs: i32) -> Duration { arbitrary() }
    }
    impl std::ops::Mul<i32> for Duration { type Output = Duration;
        #[verifier::external_body]
        fn mul(self, rhs: i32) -> (r: Duration) ensures dur_ns(r) == dur_ns(self) * rhs as int { unimplemented!() } }
    impl vstd::std_specs::ops::AddSpecImpl<Duration> for DateTime<FixedOffset> {
        open spec fn obeys_add_spec() -> bool { false }
        open spec fn add_req(self, rhs: Duration) -> bool { ts_ok(ts_ns(self) + dur_ns(rhs)) }
        open spec fn add_spec(self, rhs: Duration) -> DateTime<FixedOffset> { arbitrary() }
    }
    impl std::ops::Add<Duration> for DateTime<FixedOffset> { type Output = DateTime<FixedOffset>;
        #[verifier::external_body]
        fn add(self, rhs: Duration) -> (r: DateTime<FixedOffset>) ensures ts_ns(r) == ts_ns(self) + dur_ns(rhs), ts_off(r) == ts_off(self) { unimplemented!() } }
    impl vstd::std_specs::ops::SubSpecImpl<Duration> for DateTime<FixedOffset> {
        open spec fn obeys_sub_spec() -> bool { false }
        open spec fn sub_req(self, rhs: Duration) -> bool { ts_ok(ts_ns(self) - dur_ns(rhs)) }
        open spec fn sub_spec(self, rhs: Duration) -> DateTime<FixedOffset> { arbitrary() }
    }
    impl std::ops::Sub<Duration> for DateTime<FixedOffset> { type Output = DateTime<FixedOffset>;
        #[verifier::external_body]
        fn sub(self, rhs: Duration) -> (r: DateTime<FixedOffset>) ensures ts_ns(r) == ts_ns(self) - dur_ns(rhs), ts_off(r) == ts_off(self) { unimplemented!() } }
    impl vstd::std_specs::ops::SubSpecImpl<DateTime<FixedOffset>> for DateTime<FixedOffset> {
        open spec fn obeys_sub_spec() -> bool { false }
        open spec fn sub_req(self, rhs: DateTime<FixedOffset>) -> bool { true }   // signed_duration_since never overflows inside chrono's date range
        open spec fn sub_spec(self, rhs: DateTime<FixedOffset>) -> Duration { arbitrary() }
    }
    impl std::ops::Sub<DateTime<FixedOffset>> for DateTime<FixedOffset> { type Output = Duration;
        #[verifier::external_body]
        fn sub(self, rhs: DateTime<FixedOffset>) -> (r: Duration) ensures dur_ns(r) == ts_ns(self) - ts_ns(rhs) { unimplemented!() } }
}
// ---- calendar fields of a timestamp at its own offset (chrono::Datelike / Timelike; all ASSUMED, uninterpreted) ----
pub mod chrono_fields {
    use super::*;
    use super::chrono::*;
    pub uninterp spec fn ts_year(t: DateTime<FixedOffset>) -> int;
    pub uninterp spec fn ts_month(t: DateTime<FixedOffset>) -> int;        // 1..=12
    pub uninterp spec fn ts_day(t: DateTime<FixedOffset>) -> int;          // 1..=31
    pub uninterp spec fn ts_ordinal(t: DateTime<FixedOffset>) -> int;      // day of year, 1..=366
    pub uninterp spec fn ts_weekday_sun0(t: DateTime<FixedOffset>) -> int; // 0 = Sunday .. 6 = Saturday
    pub uninterp spec fn ts_hour(t: DateTime<FixedOffset>) -> int;
    pub uninterp spec fn ts_minute(t: DateTime<FixedOffset>) -> int;
    pub uninterp spec fn ts_second(t: DateTime<FixedOffset>) -> int;
    pub uninterp spec fn ts_millis(t: DateTime<FixedOffset>) -> int;       // 0..=999 (1999 during a leap second)
    #[verifier::external_body] pub struct Weekday { _p: u8 }
    #[verifier::external_body] pub struct Days { _p: u64 }
    #[verifier::external_body] pub struct Months { _p: u32 }
    pub uninterp spec fn days_n(d: Days) -> int;
    pub uninterp spec fn months_n(m: Months) -> int;
    pub uninterp spec fn wd_sun0(w: Weekday) -> int;
    /// `t` moved back to the first day of its month / to January of its year (same time of day): uninterpreted
    pub uninterp spec fn first_of_month(t: DateTime<FixedOffset>) -> DateTime<FixedOffset>;
    pub uninterp spec fn first_of_year(t: DateTime<FixedOffset>) -> DateTime<FixedOffset>;
    impl Days { #[verifier::external_body] pub fn new(n: u64) -> (r: Days) ensures days_n(r) == n { unimplemented!() } }
    impl Months { #[verifier::external_body] pub fn new(n: u32) -> (r: Months) ensures months_n(r) == n { unimplemented!() } }
    impl Weekday { #[verifier::external_body] pub fn num_days_from_sunday(&self) -> (r: u32) ensures r == wd_sun0(*self), r <= 6 { unimplemented!() } }
    impl DateTime<FixedOffset> {
        #[verifier::external_body] pub fn year(&self) -> (r: i32) ensures r == ts_year(*self) { unimplemented!() }
        #[verifier::external_body] pub fn month(&self) -> (r: u32) ensures r == ts_month(*self), 1 <= r <= 12 { unimplemented!() }
        #[verifier::external_body] pub fn month0(&self) -> (r: u32) ensures r == ts_month(*self) - 1, r <= 11 { unimplemented!() }
        #[verifier::external_body] pub fn day(&self) -> (r: u32) ensures r == ts_day(*self), 1 <= r <= 31 { unimplemented!() }
        #[verifier::external_body] pub fn day0(&self) -> (r: u32) ensures r == ts_day(*self) - 1, r <= 30 { unimplemented!() }
        #[verifier::external_body] pub fn ordinal(&self) -> (r: u32) ensures r == ts_ordinal(*self), 1 <= r <= 366 { unimplemented!() }
        #[verifier::external_body] pub fn ordinal0(&self) -> (r: u32) ensures r == ts_ordinal(*self) - 1, r <= 365 { unimplemented!() }
        #[verifier::external_body] pub fn weekday(&self) -> (r: Weekday) ensures wd_sun0(r) == ts_weekday_sun0(*self) { unimplemented!() }
        #[verifier::external_body] pub fn hour(&self) -> (r: u32) ensures r == ts_hour(*self), r <= 23 { unimplemented!() }
        #[verifier::external_body] pub fn minute(&self) -> (r: u32) ensures r == ts_minute(*self), r <= 59 { unimplemented!() }
        #[verifier::external_body] pub fn second(&self) -> (r: u32) ensures r == ts_second(*self), r <= 59 { unimplemented!() }
        /// milliseconds since the epoch, rounded toward negative infinity (chrono `timestamp_millis`)
        #[verifier::external_body] pub fn timestamp_millis(&self) -> (r: i64)
            ensures r == (if ts_ns(*self) >= 0 { ts_ns(*self) / 1_000_000 } else { -((-ts_ns(*self) + 999_999) / 1_000_000) }) { unimplemented!() }
        #[verifier::external_body] pub fn timestamp(&self) -> (r: i64)
            ensures r == (if ts_ns(*self) >= 0 { ts_ns(*self) / 1_000_000_000 } else { -((-ts_ns(*self) + 999_999_999) / 1_000_000_000) }) { unimplemented!() }
        #[verifier::external_body] pub fn timestamp_subsec_millis(&self) -> (r: u32) ensures r == ts_millis(*self), r <= 1999 { unimplemented!() }
        /// going back to the first day of the own month / own year never leaves the representable range (same year)
        #[verifier::external_body] pub fn checked_sub_days(self, d: Days) -> (r: Option<DateTime<FixedOffset>>)
            ensures days_n(d) == ts_day(self) - 1 ==> r == Some(first_of_month(self)) { unimplemented!() }
        #[verifier::external_body] pub fn checked_sub_months(self, m: Months) -> (r: Option<DateTime<FixedOffset>>)
            ensures (ts_day(self) == 1 && months_n(m) == ts_month(self) - 1) ==> r == Some(first_of_year(self)) { unimplemented!() }
    }
    impl Duration {
        #[verifier::external_body] pub fn num_days(&self) -> (r: i64) ensures r == (if dur_ns(*self) >= 0 { dur_ns(*self) / 86_400_000_000_000 } else { -((-dur_ns(*self)) / 86_400_000_000_000) }) { unimplemented!() }
    }
    /// calendar facts (ASSUMED): the first of the month has the same month and day 1; the distance to January 1st of the own year
    /// (same time of day) is ordinal-1 whole days
    #[verifier::external_body]
    pub broadcast proof fn axiom_first_of_month(t: DateTime<FixedOffset>)
        ensures ts_day(#[trigger] first_of_month(t)) == 1, ts_month(first_of_month(t)) == ts_month(t), first_of_year(first_of_month(t)) == first_of_year(t),
                ts_ns(t) - ts_ns(first_of_year(t)) == (ts_ordinal(t) - 1) * 86_400_000_000_000
    {}
}
