// ---- stand-ins for the call / member / primary alternatives of the generated parse tree (ASSUMED environment) ----
#[verifier::external_body] pub struct PrimaryContextAll { x: u8 }
pub uninterp spec fn visit_primary_spec(node: PrimaryContextAll) -> Expr;
pub struct ExprListContextAll { pub e: Vec<Rc<ExprContextAll>> }
pub struct MemberCallContext { pub m: Option<Rc<MemberContextAll>>, pub id: Option<Box<CommonToken>>, pub open: Option<Box<CommonToken>>, pub args: Option<Rc<ExprListContextAll>> }
impl MemberCallContext {
    #[verifier::external_body] pub fn member(&self) -> (r: Option<Rc<MemberContextAll>>) ensures r == self.m { unimplemented!() }
    #[verifier::external_body] pub fn start(&self) -> Rc<CommonToken> { unimplemented!() }
}
pub struct GlobalCallContext { pub id: Option<Box<CommonToken>>, pub leadingDot: Option<Box<CommonToken>>, pub op: Option<Box<CommonToken>>, pub args: Option<Rc<ExprListContextAll>> }
pub struct MemberExprContext { pub m: Option<Rc<MemberContextAll>> }
impl MemberExprContext {
    #[verifier::external_body] pub fn member(&self) -> (r: Option<Rc<MemberContextAll>>) ensures r == self.m { unimplemented!() }
    #[verifier::external_body] pub fn start(&self) -> Rc<CommonToken> { unimplemented!() }
}
pub struct PrimaryExprContext { pub p: Option<Rc<PrimaryContextAll>> }
impl PrimaryExprContext {
    #[verifier::external_body] pub fn primary(&self) -> (r: Option<Rc<PrimaryContextAll>>) ensures r == self.p { unimplemented!() }
    #[verifier::external_body] pub fn start(&self) -> Rc<CommonToken> { unimplemented!() }
}
pub struct NestedContext { pub e: Option<Rc<ExprContextAll>> }
impl NestedContext { #[verifier::external_body] pub fn start(&self) -> Rc<CommonToken> { unimplemented!() } }
/// an identifier token: `id.clone().text` is its text
pub struct IdentToken { pub text: String }
impl Clone for IdentToken { #[verifier::external_body] fn clone(&self) -> (r: IdentToken) ensures r == *self { unimplemented!() } }
pub struct IdentContext { pub id: Option<Box<IdentToken>> }
impl IdentContext { #[verifier::external_body] pub fn start(&self) -> Rc<CommonToken> { unimplemented!() } }
impl ParserHelper {
    #[verifier::external_body] pub fn next_id_for_token(&mut self, token: Option<&CommonToken>) -> u64 { unimplemented!() }
    #[verifier::external_body] pub fn next_expr_ident(&mut self, token: &IdentToken, expr: Expr) -> (r: IdedExpr) ensures r.expr == expr { unimplemented!() }
}
#[verifier::external_body] pub fn __dot_prefixed(s: &String) -> (r: String) ensures r@ == seq!['.'] + s@ { unimplemented!() }
/// the expression trees of an argument list, in source order
pub open spec fn arg_exprs(a: Option<Rc<ExprListContextAll>>) -> Seq<Expr> {
    match a { Some(l) => Seq::new(l.e@.len(), |i: int| visit_expr_spec(*l.e@[i])), None => Seq::empty() }
}
pub open spec fn exprs_of(v: Seq<IdedExpr>) -> Seq<Expr> { Seq::new(v.len(), |i: int| v[i].expr) }
impl Parser {
    #[verifier::external_body] fn visit_primary(&mut self, node: &PrimaryContextAll) -> (r: IdedExpr) ensures r.expr == visit_primary_spec(*node) { unimplemented!() }
    /// Parser::receiver_call_or_macro / global_call_or_macro: verified in group calls (macro lookup by name, arity and receiver presence; a plain
    /// call keeps receiver, name and arguments; a fold macro puts the receiver, unchanged, in range position).  Restated here over the
    /// stand-in types of this group (ASSUMED link, kept in step by hand with contracts/calls.*.vspec)
    #[verifier::external_body]
    fn receiver_call_or_macro(&mut self, id: u64, func_name: String, target: IdedExpr, args: Vec<IdedExpr>) -> (r: IdedExpr)
        ensures expander_spec(func_name@, true, args@.len() as int) is None ==> (final(self).errors@.len() == old(self).errors@.len()
                    && (r.expr matches Expr::Call(c) && c.target matches Some(t) && *t == target && c.func_name == func_name && c.args == args)),
                expander_spec(func_name@, true, args@.len() as int) is Some
                    ==> ((final(self).errors@.len() == old(self).errors@.len() && (r.expr matches Expr::Comprehension(c) && *c.iter_range == target))
                         || final(self).errors@.len() == old(self).errors@.len() + 1),
    { unimplemented!() }
    #[verifier::external_body]
    fn global_call_or_macro_full(&mut self, id: u64, func_name: String, args: Vec<IdedExpr>) -> (r: IdedExpr)
        ensures expander_spec(func_name@, false, args@.len() as int) is None ==> (final(self).errors@.len() == old(self).errors@.len()
                    && (r.expr matches Expr::Call(c) && c.target is None && c.func_name == func_name && c.args == args)),
                expander_spec(func_name@, false, args@.len() as int) is Some
                    ==> ((final(self).errors@.len() == old(self).errors@.len() && (args@[0].expr matches Expr::Select(s) && r.expr == Expr::Select(SelectExpr { operand: s.operand, field: s.field, test: true })))
                         || final(self).errors@.len() == old(self).errors@.len() + 1),
    { unimplemented!() }
}
/// the name of a global call: the identifier, with a leading dot kept when the source has one
pub open spec fn call_name(c: GlobalCallContext) -> Seq<char> {
    if c.leadingDot is Some { seq!['.'] + tok_text(*c.id->Some_0) } else { tok_text(*c.id->Some_0) }
}
// ---- list and map literals ----
pub struct OptExprContextAll { pub e: Option<Rc<ExprContextAll>>, pub opt: Option<Box<CommonToken>> }
pub struct ListInitContextAll { pub elems: Vec<Rc<OptExprContextAll>> }
pub struct OptKeyContextAll { pub e: ExprContextAll, pub opt: Option<Box<CommonToken>> }
pub uninterp spec fn visit_key_spec(node: OptKeyContextAll) -> Expr;
pub struct MapInitializerListContextAll { pub keys: Vec<Rc<OptKeyContextAll>>, pub values: Vec<Rc<ExprContextAll>>, pub cols: Vec<CommonToken> }
pub struct CreateListContext { pub op: Option<Box<CommonToken>>, pub elems: Option<Rc<ListInitContextAll>> }
pub struct CreateStructContext { pub op: Option<Box<CommonToken>>, pub entries: Option<Rc<MapInitializerListContextAll>> }
impl Parser {
    #[verifier::external_body] fn visit_key(&mut self, node: &OptKeyContextAll) -> (r: IdedExpr) ensures r.expr == visit_key_spec(*node), final(self).errors@.len() >= old(self).errors@.len() { unimplemented!() }
}
/// every element of the list literal is a plain expression (no `?` marker, present)
pub open spec fn plain_list(l: ListInitContextAll) -> bool { forall|i: int| 0 <= i < l.elems@.len() ==> (#[trigger] l.elems@[i]).e is Some && l.elems@[i].opt is None }
pub open spec fn list_exprs(l: ListInitContextAll) -> Seq<Expr> { Seq::new(l.elems@.len(), |i: int| visit_expr_spec(*l.elems@[i].e->Some_0)) }
pub open spec fn plain_map(m: MapInitializerListContextAll) -> bool {
    m.keys@.len() == m.cols@.len() && m.values@.len() == m.cols@.len() && forall|i: int| 0 <= i < m.keys@.len() ==> (#[trigger] m.keys@[i]).opt is None
}
/// entry i of the map literal is (key i, value i), in source order, none optional
pub open spec fn map_entries_ok(r: Seq<IdedEntryExpr>, m: MapInitializerListContextAll) -> bool {
    r.len() == m.cols@.len() && forall|i: int| 0 <= i < r.len() ==> ((#[trigger] r[i]).expr matches EntryExpr::MapEntry(en)
        && en.key.expr == visit_key_spec(*m.keys@[i]) && en.value.expr == visit_expr_spec(*m.values@[i]) && !en.optional)
}
