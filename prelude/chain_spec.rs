// ---- property C04 (AST-construction half): a chain `t0 op t1 op ... tn` of one logical operator ----
/// e is a tree of `f`-calls whose operands, read left to right, are exactly ts (in source order) and whose node ids are os
pub open spec fn chain_ok(e: IdedExpr, f: String, ts: Seq<IdedExpr>, os: Seq<u64>) -> bool
    decreases os.len()
{
    ts.len() == os.len() + 1 && (
        if os.len() == 0 { e == ts[0] } else {
            exists|m: int| #![trigger os[m]] 0 <= m < os.len() && e.id == os[m]
                && (e.expr matches Expr::Call(c) && c.func_name == f && c.target is None && c.args@.len() == 2
                    && chain_ok(c.args@[0], f, ts.subrange(0, m + 1), os.subrange(0, m))
                    && chain_ok(c.args@[1], f, ts.subrange(m + 1, ts.len() as int), os.subrange(m + 1, os.len() as int)))
        })
}
