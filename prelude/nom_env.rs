// ---- stand-in for the nom 7 dependency (ASSUMED contracts; `complete` parsers over &str) ----
pub mod nom {
    use super::*;
    pub mod error {
        use super::*;
        pub enum ErrorKind { Tag, Char, Float, Alt, Many1, TooLarge, Digit, Verify }
        pub struct Error<I> { pub input: I, pub code: ErrorKind }
        impl<I> Error<I> {
            pub fn new(input: I, code: ErrorKind) -> (r: Error<I>) ensures r.input == input && r.code == code { Error { input, code } }
        }
    }
    pub enum Needed { Unknown }
    pub enum Err<E> { Incomplete(Needed), Error(E), Failure(E) }
    pub type IResult<I, O> = Result<(I, O), Err<error::Error<I>>>;
    /// tag(t)(i): Some(rest) iff t is a prefix of i
    #[verifier::external_body] pub fn __tag<'a>(i: &'a str, t: &str) -> (r: Option<&'a str>)
        ensures match r { Some(rest) => t@.is_prefix_of(i@) && rest@ == i@.skip(t@.len() as int), None => !t@.is_prefix_of(i@) } { unimplemented!() }
    /// char(c)(i): Some(rest) iff i starts with c
    #[verifier::external_body] pub fn __char<'a>(i: &'a str, c: char) -> (r: Option<&'a str>)
        ensures match r { Some(rest) => i@.len() > 0 && i@[0] == c && rest@ == i@.skip(1), None => !(i@.len() > 0 && i@[0] == c) } { unimplemented!() }
    #[verifier::external_body] pub fn __char_p<'a>(i: &'a str, c: char) -> (r: IResult<&'a str, char>)
        ensures match r { Ok((rest, o)) => i@.len() > 0 && i@[0] == c && rest@ == i@.skip(1) && o == c, Err(e) => !(i@.len() > 0 && i@[0] == c) && e is Error } { unimplemented!() }
    /// one_of(set)(i): the first character when it is one of `set`
    #[verifier::external_body] pub fn __one_of<'a>(i: &'a str, set: &str) -> (r: IResult<&'a str, char>)
        ensures match r { Ok((rest, o)) => i@.len() > 0 && set@.contains(i@[0]) && rest@ == i@.skip(1) && o == i@[0], Err(e) => !(i@.len() > 0 && set@.contains(i@[0])) && e is Error } { unimplemented!() }
    /// a recoverable error (Err::Error) at `i`
    #[verifier::external_body] pub fn __error<'a>(i: &'a str) -> (r: Err<error::Error<&'a str>>) ensures r is Error { unimplemented!() }
    #[verifier::external_body] pub fn __recoverable<'a>(e: &Err<error::Error<&'a str>>) -> (r: bool) ensures r == (*e is Error) { unimplemented!() }
    /// `i1.input_len() == len` of many1 (no progress): for a suffix of the input, equal byte lengths mean equal texts
    #[verifier::external_body] pub fn __same_len(a: &str, b: &str) -> (r: bool) ensures r == (a@.len() == b@.len()) { unimplemented!() }
    /// opt(f)(i): a recoverable failure of f consumes nothing and yields None
    pub fn __opt<'a, O>(r: IResult<&'a str, O>, i: &'a str) -> (res: IResult<&'a str, Option<O>>)
        ensures match r { Ok((rest, o)) => res == Ok::<(&'a str, Option<O>), Err<error::Error<&'a str>>>((rest, Some(o))),
                          Err(Err::Error(_)) => res == Ok::<(&'a str, Option<O>), Err<error::Error<&'a str>>>((i, None::<O>)),
                          Err(e) => res == Err::<(&'a str, Option<O>), Err<error::Error<&'a str>>>(e) }
    {
        match r { Ok((rest, o)) => Ok((rest, Some(o))), Err(Err::Error(_e)) => Ok((i, None)), Err(e) => Err(e) }
    }
    pub mod number { pub mod complete {
        use super::super::*;
        use super::super::super::*;
        /// nom::number::complete::double: the longest prefix that is a floating point literal in nom's grammar (optional sign, digits with
        /// optional fraction and exponent, or `inf` / `infinity` / `nan` in any case), parsed by std; a recoverable error when there is none
        pub uninterp spec fn nom_double(i: Seq<char>) -> Option<(int, f64)>;
        #[verifier::external_body] pub fn double<'a>(i: &'a str) -> (r: IResult<&'a str, f64>)
            ensures match nom_double(i@) { Some(p) => 0 < p.0 <= i@.len() && (r matches Ok(q) && q.0@ == i@.skip(p.0) && q.1 == p.1), None => r matches Err(Err::Error(_)) } { unimplemented!() }
    } }
}
