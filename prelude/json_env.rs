// ---- environment of interpreter/src/json.rs ----
// serde_json stand-ins: the `Value` enum with the variants of serde_json 1.x; `Number` and `Map<String, Value>` are opaque, with
// ASSUMED constructor contracts.  base64 / RFC 3339 text and the numeric `From` conversions are uninterpreted functions.
pub mod serde_json {
    use super::*;
    #[verifier::external_body] pub struct Number { _p: u8 }
    #[verifier::external_body] pub struct Map { _p: u8 }
    pub enum Value { Null, Bool(bool), Number(Number), String(String), Array(Vec<Value>), Object(Map) }
    pub uninterp spec fn num_i64(n: int) -> Number;
    pub uninterp spec fn num_u64(n: int) -> Number;
    /// `Value::from(f64)`: a number, or null for NaN / infinities (serde_json; the shape is proved by the Kani harness c18_doubles)
    pub uninterp spec fn of_f64(f: f64) -> Value;
    impl Number {
        #[verifier::external_body] pub fn from(n: i64) -> (r: Number) ensures r == num_i64(n as int) { unimplemented!() }
    }
    impl Map {
        pub uninterp spec fn view(&self) -> vstd::map::Map<Seq<char>, Value>;
        #[verifier::external_body] pub fn new() -> (r: Map) ensures r@ == vstd::map::Map::<Seq<char>, Value>::empty() { unimplemented!() }
        /// insert: a later entry with the same key text replaces the earlier one
        #[verifier::external_body] pub fn insert(&mut self, k: String, v: Value) -> (r: Option<Value>)
            ensures final(self)@ == old(self)@.insert(k@, v) { unimplemented!() }
    }
}
/// base64::prelude engines: each alphabet / padding variant is its own text (uninterpreted); the property wants the STANDARD one
pub enum B64Kind { Standard, StandardNoPad, UrlSafe, UrlSafeNoPad }
pub struct B64Engine { pub kind: B64Kind }
pub uninterp spec fn b64_text(k: B64Kind, b: Seq<u8>) -> Seq<char>;
pub open spec fn base64_std(b: Seq<u8>) -> Seq<char> { b64_text(B64Kind::Standard, b) }
pub const BASE64_STANDARD: B64Engine = B64Engine { kind: B64Kind::Standard };
pub const BASE64_STANDARD_NO_PAD: B64Engine = B64Engine { kind: B64Kind::StandardNoPad };
pub const BASE64_URL_SAFE: B64Engine = B64Engine { kind: B64Kind::UrlSafe };
pub const BASE64_URL_SAFE_NO_PAD: B64Engine = B64Engine { kind: B64Kind::UrlSafeNoPad };
impl B64Engine {
    /// `ENGINE.encode(bytes).to_string().into()` (R6: the String -> serde_json::Value conversion is folded into the stand-in)
    #[verifier::external_body] pub fn encode_json(&self, b: &[u8]) -> (r: serde_json::Value) ensures r matches serde_json::Value::String(t) && t@ == b64_text(self.kind, b@) { unimplemented!() }
}
pub uninterp spec fn rfc3339(t: chrono::DateTime<chrono::FixedOffset>) -> Seq<char>;
// R6 wrappers for the `.into()` conversions (From<i64|u64|f64|String|bool> for serde_json::Value) and the text encoders
#[verifier::external_body] pub fn __json_i64(i: i64) -> (r: serde_json::Value) ensures r == serde_json::Value::Number(serde_json::num_i64(i as int)) { unimplemented!() }
#[verifier::external_body] pub fn __json_u64(u: u64) -> (r: serde_json::Value) ensures r == serde_json::Value::Number(serde_json::num_u64(u as int)) { unimplemented!() }
#[verifier::external_body] pub fn __json_f64(f: f64) -> (r: serde_json::Value) ensures r == serde_json::of_f64(f) { unimplemented!() }
#[verifier::external_body] pub fn __json_bool(b: bool) -> (r: serde_json::Value) ensures r == serde_json::Value::Bool(b) { unimplemented!() }
#[verifier::external_body] pub fn __json_string(s: &Arc<String>) -> (r: serde_json::Value) ensures r matches serde_json::Value::String(t) && t@ == s@ { unimplemented!() }
#[verifier::external_body] pub fn __json_base64(b: &Arc<Vec<u8>>) -> (r: serde_json::Value) ensures r matches serde_json::Value::String(t) && t@ == base64_std(b@) { unimplemented!() }
#[verifier::external_body] pub fn __json_rfc3339(dt: &chrono::DateTime<chrono::FixedOffset>) -> (r: serde_json::Value) ensures r matches serde_json::Value::String(t) && t@ == rfc3339(*dt) { unimplemented!() }
#[verifier::external_body] pub fn __key_to_string(k: &Key) -> (r: String) ensures r@ == key_str(*k) { unimplemented!() }
/// the text `Display for Key` renders (ASSUMED deterministic; std formatting is out of reach)
pub uninterp spec fn key_str(k: Key) -> Seq<char>;

// ---- property C18: what the export must produce ----
pub open spec fn in_i64r(n: int) -> bool { -9223372036854775808 <= n <= 9223372036854775807 }
/// no function value and no duration beyond 64-bit nanoseconds, at any depth
pub open spec fn exportable(v: Value) -> bool
    decreases v
{
    match v {
        Value::List(l) => exportable_list(l@),
        Value::Map(m) => exportable_map(m.map@),
        Value::Function(_, _) => false,
        Value::Duration(d) => in_i64r(chrono::dur_ns(d)),
        _ => true,
    }
}
pub open spec fn exportable_list(l: Seq<Value>) -> bool
    decreases l
{ forall|i: int| 0 <= i < l.len() ==> exportable(#[trigger] l[i]) }
pub open spec fn exportable_map(m: vstd::map::Map<Key, Value>) -> bool
    decreases m via exportable_map_dec
{ forall|k: Key| m.contains_key(k) ==> exportable(#[trigger] m[k]) }
#[via_fn]
proof fn exportable_map_dec(m: vstd::map::Map<Key, Value>) {}
/// the key's text is shared with no other key of the map
pub open spec fn text_unique(m: vstd::map::Map<Key, Value>, k: Key) -> bool {
    forall|k2: Key| m.contains_key(k2) && key_str(k2) == key_str(k) ==> k2 == k
}
/// `j` is the structurally corresponding document of `v`
pub open spec fn json_rel(v: Value, j: serde_json::Value) -> bool
    decreases v
{
    match v {
        Value::List(l) => j matches serde_json::Value::Array(a) && json_rel_list(l@, a@),
        Value::Map(m) => j matches serde_json::Value::Object(o) && json_rel_map(m.map@, o@),
        Value::Int(i) => j == serde_json::Value::Number(serde_json::num_i64(i as int)),
        Value::UInt(u) => j == serde_json::Value::Number(serde_json::num_u64(u as int)),
        Value::Float(f) => j == serde_json::of_f64(f),
        Value::String(s) => j matches serde_json::Value::String(t) && t@ == s@,
        Value::Bool(b) => j == serde_json::Value::Bool(b),
        Value::Bytes(b) => j matches serde_json::Value::String(t) && t@ == base64_std(b@),
        Value::Null => j == serde_json::Value::Null,
        Value::Timestamp(t) => j matches serde_json::Value::String(s) && s@ == rfc3339(t),
        Value::Duration(d) => j == serde_json::Value::Number(serde_json::num_i64(chrono::dur_ns(d))),
        Value::Function(_, _) => false,
    }
}
/// arrays: same length, element-wise, in order
pub open spec fn json_rel_list(l: Seq<Value>, a: Seq<serde_json::Value>) -> bool
    decreases l
{ a.len() == l.len() && forall|i: int| 0 <= i < l.len() ==> json_rel(#[trigger] l[i], a[i]) }
/// objects: exactly the key texts of the map; an entry whose key text is unique is exported under that text
pub open spec fn json_rel_map(m: vstd::map::Map<Key, Value>, o: vstd::map::Map<Seq<char>, serde_json::Value>) -> bool
    decreases m via json_rel_map_dec
{
    (forall|t: Seq<char>| o.contains_key(t) <==> exists|k: Key| m.contains_key(k) && #[trigger] key_str(k) == t)
    && (forall|k: Key| m.contains_key(k) && text_unique(m, k) ==> o.contains_key(key_str(k)) && json_rel(#[trigger] m[k], o[key_str(k)]))
}
#[via_fn]
proof fn json_rel_map_dec(m: vstd::map::Map<Key, Value>, o: vstd::map::Map<Seq<char>, serde_json::Value>) {}
/// among the first `n` pairs, position `j` is the only one whose key renders to that text
pub open spec fn first_with_text(s: Seq<(&Key, &Value)>, n: int, j: int) -> bool {
    forall|j2: int| 0 <= j2 < n && key_str(*(#[trigger] s[j2]).0) == key_str(*s[j].0) ==> j2 == j
}
