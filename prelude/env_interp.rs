// ---- environment of Value::resolve: callees under their contracts (proved in their own groups) ----
/// the crate's own trait, re-declared with one woven ghost item (`tiv_spec`) so that generic callers can be specified
pub trait TryIntoValue: Sized {
    type Error;
    spec fn tiv_spec(self) -> Result<Value, Self::Error>;
    fn try_into_value(self) -> (r: Result<Value, Self::Error>)
        ensures r == self.tiv_spec();
}
//@verify objects.try_into_value_for_value
/// `(func)(&mut ctx)` on `&Function` (R6): the call through the `dyn Fn` object.  ASSUMED: host functions are deterministic,
/// terminating, do not panic, and behave as `host_spec` of (receiver, unevaluated argument expressions, scopes, registry).
#[verifier::external_body]
pub fn __dyn_call(f: &Function, ctx: &mut FunctionContext, Ghost(evald): Ghost<Seq<int>>) -> (res: ResolveResult)
    requires
        // property C07: the arguments are handed to the function unevaluated (the callee evaluates each at most once)
        forall|k: int| 0 <= k < old(ctx).args@.len() ==> !evald.contains(k),   // [C07.args_unevaluated]
    ensures
        refines(res, host_spec(*f, match old(ctx).this { Some(t) => Some(vview(t)), None => None }, old(ctx).args@,
                               env_view(*old(ctx).ptx), funcs_of(*old(ctx).ptx))),
        // a host function reports UndeclaredReference only for names it looked up itself (ASSUMED, property C19)
{ unimplemented!() }
impl<'context> FunctionContext<'context> {
    #[verifier::external_body]
    pub fn new(name: Arc<String>, this: Option<Value>, ptx: &'context Context<'context>, args: Vec<Expression>) -> (r: Self)
        ensures r.args == args, r.this == this, r.arg_idx == 0, r.ptx == ptx, r.name == name
    { unimplemented!() }
}
impl FromSpecImpl<Val> for Value { open spec fn obeys_from_spec() -> bool { false } open spec fn from_spec(v: Val) -> Value { arbitrary() } }
//@verify objects.from_val_for_value
pub assume_specification<'a>[<String as PartialEq<&'a str>>::eq](a: &String, b: &&str) -> (r: bool) ensures r == (a@ == (*b)@);
/// `haystack.contains(needle)` on two string slices (R6-style wrapper: std's signature is generic over `Pattern`)
#[verifier::external_body]
pub fn __str_contains(hay: &str, needle: &str) -> (r: bool) ensures r == str_contains(hay@, needle@) { hay.contains(needle) }
pub assume_specification<T: std::cmp::PartialEq> [<[T]>::contains] (s: &[T], x: &T) -> (r: bool)
    ensures <T as PartialEqSpec>::obeys_eq_spec() ==> r == exists|i: int| 0 <= i < s@.len() && (#[trigger] s@[i]).eq_spec(x);
pub assume_specification<I: std::slice::SliceIndex<str>> [str::get] (_0: &str, _1: I) -> std::option::Option<&<I as std::slice::SliceIndex<str>>::Output>;
/// `key.to_string()` (Display of a map key, core::fmt): R6 wrapper; the text of a string key is the string itself (ASSUMED)
#[verifier::external_body]
pub fn __key_to_string(k: &Key) -> (r: String) ensures r@ == key_text(kview(*k)) { unimplemented!() }
