// ---- environment of context.rs ----
pub trait TryIntoValue: Sized {
    type Error;
    spec fn tiv_spec(self) -> Result<Value, Self::Error>;
    fn try_into_value(self) -> (r: Result<Value, Self::Error>)
        ensures r == self.tiv_spec();
}
/// magic.rs FunctionRegistry: lookups go through HashMap<String, _>::get::<str> (Borrow); contracts over the opaque registry_view
impl FunctionRegistry {
    #[verifier::external_body]
    pub fn get(&self, name: &str) -> (r: Option<&Function>)
        ensures r == (if registry_view(*self).contains_key(name@) { Some(&registry_view(*self)[name@]) } else { None::<&Function> })
    { unimplemented!() }
    #[verifier::external_body]
    pub fn has(&self, name: &str) -> (r: bool)
        ensures r == registry_view(*self).contains_key(name@)
    { unimplemented!() }
}
/// properties of the abstract views that the proofs below need
pub proof fn lemma_env_view_child(c: Context)
    requires c is Child
    ensures
        env_view(c) =~= env_view(*c->Child_parent).push(smap(c->Child_variables@)),
        scopes(c) =~= scopes(*c->Child_parent).push(c->Child_variables@),
{
    let p = *c->Child_parent;
    assert(scopes(c) =~= scopes(p).push(c->Child_variables@));
    assert forall|i: int| 0 <= i < env_view(c).len() implies env_view(c)[i] == env_view(p).push(smap(c->Child_variables@))[i] by {
        if i < scopes(p).len() { assert(scopes(c)[i] == scopes(p)[i]); }
    }
}
pub proof fn lemma_env_view_root(c: Context)
    requires c is Root
    ensures env_view(c) =~= seq![smap(c->Root_variables@)]
{
}
pub proof fn lemma_smap_insert(m: vstd::map::Map<String, Value>, k: String, v: Value)
    ensures smap(m.insert(k, v)) =~= smap(m).insert(k, vview(v))
{
}
