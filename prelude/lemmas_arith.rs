// ---- lemmas: vstd's spec of checked_div / checked_rem (Euclidean form) is truncating division ----
pub open spec fn iabs(a: int) -> int { if a >= 0 { a } else { -a } }
pub open spec fn vstd_div(a: int, b: int) -> int { if a == 0 { 0 } else if a > 0 { a / b } else { -((-a) / b) } }
pub open spec fn vstd_rem(a: int, b: int) -> int { if a == 0 { 0 } else if a > 0 { a % b } else { -((-a) % b) } }

pub proof fn lemma_euc_neg_divisor(a: int, b: int)
    requires a >= 0, b < 0
    ensures a / b == -(a / (-b)), a % b == a % (-b)
{
    let q = a / b; let r = a % b; let q2 = a / (-b); let r2 = a % (-b);
    assert(a == b * q + r && 0 <= r < -b) by (nonlinear_arith) requires q == a / b, r == a % b, b < 0;
    assert(a == (-b) * q2 + r2 && 0 <= r2 < -b) by (nonlinear_arith) requires q2 == a / (-b), r2 == a % (-b), b < 0;
    let s = q + q2;
    assert(b * s == r2 - r) by (nonlinear_arith) requires a == b * q + r, a == (-b) * q2 + r2, s == q + q2;
    if s >= 1 { assert(b * s <= b) by (nonlinear_arith) requires s >= 1, b < 0; }
    if s <= -1 { assert(b * s >= -b) by (nonlinear_arith) requires s <= -1, b < 0; }
    assert(s == 0);
    assert(r == r2) by (nonlinear_arith) requires b * s == r2 - r, s == 0;
}
pub proof fn lemma_tdiv(a: int, b: int)
    requires b != 0
    ensures vstd_div(a, b) == tdiv(a, b), vstd_rem(a, b) == trem(a, b),
        (a >= 0 ==> 0 <= trem(a, b)) && (a <= 0 ==> trem(a, b) <= 0),
        -iabs(a) <= tdiv(a, b) <= iabs(a),
        (b > 0 ==> -b < trem(a, b) < b) && (b < 0 ==> b < trem(a, b) < -b),
        a == 0 ==> tdiv(a, b) == 0 && trem(a, b) == 0,
        (a >= 0 && b > 0) ==> a / b == tdiv(a, b) && a % b == trem(a, b),
        (in_i64(a) && in_i64(b) && !(a == i64::MIN && b == -1)) ==> in_i64(tdiv(a, b)),
{
    if a == 0 {
        let bb = if b > 0 { b } else { -b };
        assert(0int / bb == 0 && 0int % bb == 0) by (nonlinear_arith) requires bb > 0;
    }
    if a == i64::MIN && b < -1 {
        let x = -a; let d = -b; let q = x / d;
        assert(q * d <= x && q >= 0) by (nonlinear_arith) requires q == x / d, d >= 2, x >= 0;
        assert(q * 2 <= q * d) by (nonlinear_arith) requires q >= 0, d >= 2;
    }
    if a >= 0 {
        if b < 0 { lemma_euc_neg_divisor(a, b); }
        let bb = if b > 0 { b } else { -b };
        assert(a == bb * (a / bb) + a % bb && 0 <= a % bb < bb && 0 <= a / bb <= a) by (nonlinear_arith) requires bb > 0, a >= 0;
        assert(trem(a, b) == a % bb) by (nonlinear_arith) requires a == bb * (a / bb) + a % bb, tdiv(a, b) == (if b > 0 { a / bb } else { -(a / bb) }), bb == (if b > 0 { b } else { -b }), trem(a, b) == a - tdiv(a, b) * b;
    } else {
        let na = -a;
        if b < 0 { lemma_euc_neg_divisor(na, b); }
        let bb = if b > 0 { b } else { -b };
        assert(na == bb * (na / bb) + na % bb && 0 <= na % bb < bb && 0 <= na / bb <= na) by (nonlinear_arith) requires bb > 0, na >= 0;
        assert(trem(a, b) == -(na % bb)) by (nonlinear_arith) requires na == bb * (na / bb) + na % bb, tdiv(a, b) == (if b > 0 { -(na / bb) } else { na / bb }), bb == (if b > 0 { b } else { -b }), trem(a, b) == a - tdiv(a, b) * b, na == -a;
    }
}
/// property C08, last sentence: (a/b)*b + a%b == a whenever both are defined, the quotient truncates toward
/// zero and the remainder takes the sign of the dividend -- as a consequence of the operator contracts
pub proof fn lemma_c08_divmod_law(a: int, b: int)
    requires in_i64(a), in_i64(b), div_spec(SVal::Int(a), SVal::Int(b)) is Ok, rem_spec(SVal::Int(a), SVal::Int(b)) is Ok,
    ensures ({
        let q = div_spec(SVal::Int(a), SVal::Int(b))->Ok_0->Int_0;
        let r = rem_spec(SVal::Int(a), SVal::Int(b))->Ok_0->Int_0;
        &&& q * b + r == a
        &&& (a >= 0 ==> r >= 0) && (a <= 0 ==> r <= 0)
        &&& iabs(r) < iabs(b)
    })
{
    reveal(div_spec); reveal(rem_spec);
    lemma_tdiv(a, b);
    let q = tdiv(a, b); let r = trem(a, b);
    assert(r == a - q * b);
}
pub proof fn lemma_c08_divmod_law_uint(a: int, b: int)
    requires in_u64(a), in_u64(b), div_spec(SVal::UInt(a), SVal::UInt(b)) is Ok, rem_spec(SVal::UInt(a), SVal::UInt(b)) is Ok,
    ensures ({
        let q = div_spec(SVal::UInt(a), SVal::UInt(b))->Ok_0->UInt_0;
        let r = rem_spec(SVal::UInt(a), SVal::UInt(b))->Ok_0->UInt_0;
        q * b + r == a && 0 <= r < b
    })
{
    reveal(div_spec); reveal(rem_spec);
    lemma_tdiv(a, b);
}
