// ---- stand-ins for the literal alternatives of the generated parse tree (ASSUMED environment, as in visitor_env.rs) ----
pub struct StringContext { pub tok: Option<CommonToken>, pub text: String }
impl StringContext {
    #[verifier::external_body] pub fn get_text(&self) -> (r: String) ensures r@ == self.text@ { unimplemented!() }
}
pub struct BytesContext { pub tok: Option<CommonToken>, pub text: String }
impl BytesContext {
    #[verifier::external_body] pub fn get_text(&self) -> (r: String) ensures r@ == self.text@ { unimplemented!() }
}
/// `ctx.tok.as_deref().expect(..)` (R6 wrapper): PANICS when the generated parser left the token unset
#[verifier::external_body]
pub fn __tok<'a>(t: &'a Option<CommonToken>) -> (r: &'a CommonToken) requires t is Some { unimplemented!() }
/// `&string[2..string.len() - 1]` (R6 wrapper): byte-indexed slicing PANICS off a character boundary; with one-byte (ASCII) characters at
/// positions 0, 1 and last, bytes 2..len-1 are exactly the characters 2..len-1 (UTF-8, ASSUMED)
#[verifier::external_body]
pub fn __strip_b_and_quotes<'a>(s: &'a String) -> (r: &'a str)
    requires s@.len() >= 3, (s@[0] as u32) < 0x80, (s@[1] as u32) < 0x80, (s@.last() as u32) < 0x80
    ensures r@ == s@.subrange(2, s@.len() - 1)
{ unimplemented!() }
#[verifier::external_body] pub fn __fmt_dbg_pse(e: &ParseSequenceError) -> String { unimplemented!() }
impl ParserHelper {
    /// parser.rs ParserHelper::next_expr: a fresh id around the node (the node is embedded unchanged)
    #[verifier::external_body]
    pub fn next_expr(&mut self, token: &CommonToken, expr: Expr) -> (r: IdedExpr) ensures r.expr == expr { unimplemented!() }
}
impl Parser {
    /// report_error / report_parse_error: records one more error (so compilation fails) and returns a placeholder node
    #[verifier::external_body]
    fn report_error_lit(&mut self, token: &CommonToken, s: String) -> (r: IdedExpr)
        ensures final(self).errors@.len() == old(self).errors@.len() + 1
    { unimplemented!() }
}
pub mod parse {
    use super::*;
    //@assume parse.parse_string
    //@assume parse.parse_bytes
}
/// what a bytes token denotes (CEL.g4 BYTES = ('b'|'B') STRING): one-line quoted body
pub open spec fn bytes_tok(t: Seq<char>) -> bool {
    t.len() >= 3 && (t[0] == 'b' || t[0] == 'B') && is_q(t[1]) && t.last() == t[1] && wf_body(t.subrange(2, t.len() - 1), Some(t[1]))
}
pub proof fn lemma_wf_without_stop(t: Seq<char>, q: char)
    requires wf_body(t, Some(q))
    ensures wf_body(t, None)
    decreases t.len()
{
    if t.len() > 0 {
        if t[0] == '\\' { lemma_wf_without_stop(t.skip(esc_cp(t)->Some_0.0), q); } else { lemma_wf_without_stop(t.skip(1), q); }
    }
}
/// the observation of a literal visitor: the AST node built, or "an error was recorded" (compilation fails)
pub open spec fn lit_string_node(r: IdedExpr, errs0: int, errs1: int, want: Option<Seq<char>>) -> bool {
    match want { Some(w) => errs1 == errs0 && (r.expr matches Expr::Literal(Val::String(st)) && st@ == w), None => errs1 == errs0 + 1 }
}
pub open spec fn lit_bytes_node(r: IdedExpr, errs0: int, errs1: int, want: Option<Seq<u8>>) -> bool {
    match want { Some(w) => errs1 == errs0 && (r.expr matches Expr::Literal(Val::Bytes(b)) && b@ == w), None => errs1 == errs0 + 1 }
}
