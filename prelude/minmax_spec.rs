// ---- min / max (property C09): the result is one of the values and bounds all the others ----
/// the collection min / max range over: the elements of a single list argument, otherwise the arguments themselves
pub open spec fn minmax_items(args: Seq<Value>) -> Seq<Value> {
    if args.len() == 1 { match args[0] { Value::List(l) => l@, v => seq![v] } } else { args }
}
pub open spec fn ge(a: SVal, b: SVal) -> bool { vcmp(a, b) == Some(Ordering::Greater) || vcmp(a, b) == Some(Ordering::Equal) }
pub open spec fn le(a: SVal, b: SVal) -> bool { vcmp(a, b) == Some(Ordering::Less) || vcmp(a, b) == Some(Ordering::Equal) }
/// the hypothesis of the statement ("mutually comparable values"): vcmp is defined on every pair of the collection and is a coherent
/// total preorder there (reflexive, Less/Greater antisymmetric, transitive).  For the numeric kinds this is what the Kani harnesses
/// c09_cmp_* prove bit-precisely about the real partial_cmp; for strings / bytes / bool / durations / timestamps it is std's and chrono's Ord.
pub open spec fn coherent_on(s: Seq<SVal>) -> bool {
    (forall|i: int, j: int| 0 <= i < s.len() && 0 <= j < s.len() ==> #[trigger] vcmp(s[i], s[j]) is Some)
    && (forall|i: int| 0 <= i < s.len() ==> #[trigger] vcmp(s[i], s[i]) == Some(Ordering::Equal))
    && (forall|i: int, j: int| 0 <= i < s.len() && 0 <= j < s.len() && #[trigger] vcmp(s[i], s[j]) == Some(Ordering::Less) ==> vcmp(s[j], s[i]) == Some(Ordering::Greater))
    && (forall|i: int, j: int| 0 <= i < s.len() && 0 <= j < s.len() && #[trigger] vcmp(s[i], s[j]) == Some(Ordering::Greater) ==> vcmp(s[j], s[i]) == Some(Ordering::Less))
    && (forall|i: int, j: int| 0 <= i < s.len() && 0 <= j < s.len() && #[trigger] vcmp(s[i], s[j]) == Some(Ordering::Equal) ==> vcmp(s[j], s[i]) == Some(Ordering::Equal))
    && (forall|i: int, j: int, k: int| 0 <= i < s.len() && 0 <= j < s.len() && 0 <= k < s.len() && #[trigger] ge(s[i], s[j]) && #[trigger] ge(s[j], s[k]) ==> ge(s[i], s[k]))
    && (forall|i: int, j: int, k: int| 0 <= i < s.len() && 0 <= j < s.len() && 0 <= k < s.len() && #[trigger] le(s[i], s[j]) && #[trigger] le(s[j], s[k]) ==> le(s[i], s[k]))
}
/// `r` is the element at position `k`, and it bounds the first `n` elements from above / below
pub open spec fn is_max_at(items: Seq<Value>, r: Value, k: int, n: int) -> bool {
    0 <= k < items.len() && items[k] == r && (forall|j: int| 0 <= j < n ==> ge(vlist(items)[k], #[trigger] vlist(items)[j]))
}
pub open spec fn is_min_at(items: Seq<Value>, r: Value, k: int, n: int) -> bool {
    0 <= k < items.len() && items[k] == r && (forall|j: int| 0 <= j < n ==> le(vlist(items)[k], #[trigger] vlist(items)[j]))
}
/// element k is comparable with no other element (a string among numbers, NaN, ...)
pub open spec fn outlier(s: Seq<SVal>, k: int) -> bool {
    0 <= k < s.len() && forall|j: int| 0 <= j < s.len() && j != k ==> #[trigger] vcmp(s[k], s[j]) is None && vcmp(s[j], s[k]) is None
}
