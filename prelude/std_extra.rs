// error types of std number parsing (opaque)
#[verifier::external_type_specification] #[verifier::external_body] pub struct ExParseFloatError(std::num::ParseFloatError);
#[verifier::external_type_specification] #[verifier::external_body] pub struct ExParseIntError(std::num::ParseIntError);
// ---- std functions without a vstd specification that idiomatic rewrites reach for (ASSUMED one-line specs) ----
// Option/Result combinators without a vstd specification (ASSUMED; their std definitions are one-line matches)
pub assume_specification<T, E, F, O: FnOnce(E) -> Result<T, F>>[Result::<T, E>::or_else](r: Result<T, E>, op: O) -> (res: Result<T, F>)
    requires r is Err ==> op.requires((r->Err_0,)),
    ensures match r { Ok(v) => res == Ok::<T, F>(v), Err(e) => op.ensures((e,), res) };
pub assume_specification<T, E, U, O: FnOnce(T) -> Result<U, E>>[Result::<T, E>::and_then](r: Result<T, E>, op: O) -> (res: Result<U, E>)
    requires r is Ok ==> op.requires((r->Ok_0,)),
    ensures match r { Ok(v) => op.ensures((v,), res), Err(e) => res == Err::<U, E>(e) };
pub assume_specification<T, E, O: FnOnce(E) -> T>[Result::<T, E>::unwrap_or_else](r: Result<T, E>, op: O) -> (res: T)
    requires r is Err ==> op.requires((r->Err_0,)),
    ensures match r { Ok(v) => res == v, Err(e) => op.ensures((e,), res) };
pub assume_specification<T, E>[Result::<T, E>::unwrap_or](r: Result<T, E>, d: T) -> (res: T)
    ensures res == (match r { Ok(v) => v, Err(_) => d });
pub assume_specification<T, E, U, O: FnOnce(T) -> U>[Result::<T, E>::map_or](r: Result<T, E>, d: U, op: O) -> (res: U)
    requires r is Ok ==> op.requires((r->Ok_0,)),
    ensures match r { Ok(v) => op.ensures((v,), res), Err(_) => res == d };
pub assume_specification<T, E, O: FnOnce(T) -> bool>[Result::<T, E>::is_ok_and](r: Result<T, E>, op: O) -> (res: bool)
    requires r is Ok ==> op.requires((r->Ok_0,)),
    ensures match r { Ok(v) => op.ensures((v,), res), Err(_) => !res };
pub assume_specification<T, U, O: FnOnce(T) -> U>[Option::<T>::map_or](r: Option<T>, d: U, op: O) -> (res: U)
    requires r is Some ==> op.requires((r->Some_0,)),
    ensures match r { Some(v) => op.ensures((v,), res), None => res == d };
pub assume_specification<T, U, D: FnOnce() -> U, O: FnOnce(T) -> U>[Option::<T>::map_or_else](r: Option<T>, d: D, op: O) -> (res: U)
    requires r is Some ==> op.requires((r->Some_0,)), r is None ==> d.requires(()),
    ensures match r { Some(v) => op.ensures((v,), res), None => d.ensures((), res) };
pub assume_specification<T, O: FnOnce(T) -> bool>[Option::<T>::is_some_and](r: Option<T>, op: O) -> (res: bool)
    requires r is Some ==> op.requires((r->Some_0,)),
    ensures match r { Some(v) => op.ensures((v,), res), None => !res };
pub assume_specification<T, O: FnOnce(T) -> bool>[Option::<T>::is_none_or](r: Option<T>, op: O) -> (res: bool)
    requires r is Some ==> op.requires((r->Some_0,)),
    ensures match r { Some(v) => op.ensures((v,), res), None => res };
pub assume_specification<T, O: FnOnce() -> Option<T>>[Option::<T>::or_else](r: Option<T>, op: O) -> (res: Option<T>)
    requires r is None ==> op.requires(()),
    ensures match r { Some(v) => res == Some(v), None => op.ensures((), res) };
pub assume_specification<T>[Option::<T>::or](r: Option<T>, d: Option<T>) -> (res: Option<T>)
    ensures res == (match r { Some(v) => Some(v), None => d });

pub assume_specification<T: ?Sized, A: std::alloc::Allocator>[<Box<T, A> as AsRef<T>>::as_ref](b: &Box<T, A>) -> (r: &T) ensures r == &**b;
pub assume_specification<T: ?Sized, A: std::alloc::Allocator>[<Arc<T, A> as AsRef<T>>::as_ref](b: &Arc<T, A>) -> (r: &T) ensures r == &**b;
// order-changing slice operations (ASSUMED): sorts are permutations (nothing is promised about the order, so an order-sensitive
// contract cannot be discharged through them), reverse / swap are exact
pub assume_specification<T, K: Ord, F: FnMut(&T) -> K>[<[T]>::sort_by_key](s: &mut [T], f: F)
    ensures final(s)@.to_multiset() == old(s)@.to_multiset(), final(s)@.len() == old(s)@.len();
pub assume_specification<T: Ord>[<[T]>::sort](s: &mut [T])
    ensures final(s)@.to_multiset() == old(s)@.to_multiset(), final(s)@.len() == old(s)@.len();
pub assume_specification<T>[<[T]>::reverse](s: &mut [T])
    ensures final(s)@ == old(s)@.reverse();
pub assume_specification<T, F: FnMut(&T, &T) -> std::cmp::Ordering>[<[T]>::sort_by](s: &mut [T], f: F)
    ensures final(s)@.to_multiset() == old(s)@.to_multiset(), final(s)@.len() == old(s)@.len();
pub assume_specification<T: Ord>[<[T]>::sort_unstable](s: &mut [T])
    ensures final(s)@.to_multiset() == old(s)@.to_multiset(), final(s)@.len() == old(s)@.len();
pub assume_specification<T>[<[T]>::swap](s: &mut [T], a: usize, b: usize)
    requires a < old(s)@.len(), b < old(s)@.len()
    ensures final(s)@ == old(s)@.update(a as int, old(s)@[b as int]).update(b as int, old(s)@[a as int]);
pub assume_specification<T>[bool::then_some](b: bool, t: T) -> (r: Option<T>) ensures r == (if b { Some(t) } else { None::<T> });
// more std functions an idiomatic rewrite may reach for (ASSUMED; doubles stay uninterpreted)
pub assume_specification<T: Ord>[std::cmp::max::<T>](a: T, b: T) -> (r: T) ensures r == a || r == b;
pub assume_specification<T: Ord>[std::cmp::min::<T>](a: T, b: T) -> (r: T) ensures r == a || r == b;
pub assume_specification[i64::abs](x: i64) -> (r: i64) requires x > i64::MIN ensures r == (if x < 0 { -x } else { x as int });
pub assume_specification[i64::wrapping_neg](x: i64) -> (r: i64) ensures r == (if x == i64::MIN { i64::MIN as int } else { -x });
pub assume_specification[i64::rem_euclid](x: i64, y: i64) -> (r: i64) requires y != 0, !(x == i64::MIN && y == -1) ensures r == x as int % y as int;
pub assume_specification[i64::div_euclid](x: i64, y: i64) -> (r: i64) requires y != 0, !(x == i64::MIN && y == -1) ensures r == x as int / y as int;
pub assume_specification[i64::overflowing_add](x: i64, y: i64) -> (r: (i64, bool)) ensures r.1 == !(i64::MIN <= x + y <= i64::MAX), !r.1 ==> r.0 == x + y;
pub assume_specification[i64::saturating_mul](x: i64, y: i64) -> (r: i64)
    ensures r == (if x * y > i64::MAX { i64::MAX as int } else if x * y < i64::MIN { i64::MIN as int } else { x * y });
pub assume_specification[u64::abs_diff](x: u64, y: u64) -> (r: u64) ensures r == (if x >= y { x - y } else { y - x });
pub assume_specification<T, U>[Option::<T>::zip](a: Option<T>, b: Option<U>) -> (r: Option<(T, U)>)
    ensures r == (match (a, b) { (Some(x), Some(y)) => Some((x, y)), _ => None::<(T, U)> });
pub assume_specification<T: Copy>[Option::<&T>::copied](a: Option<&T>) -> (r: Option<T>)
    ensures r == (match a { Some(x) => Some(*x), None => None::<T> });
pub uninterp spec fn f64_is_nan(f: f64) -> bool;
pub uninterp spec fn f64_is_finite(f: f64) -> bool;
pub uninterp spec fn f64_abs(f: f64) -> f64;
pub uninterp spec fn f64_trunc(f: f64) -> f64;
pub uninterp spec fn f64_neg(f: f64) -> f64;
/// `-f` on a double (R6: Verus has no unary minus on floating point; the value is uninterpreted, bit-precise on the Kani side)
#[verifier::external_body] pub fn __f64_neg(a: f64) -> (r: f64) ensures r == f64_neg(a) { -a }
pub assume_specification[f64::is_nan](f: f64) -> (r: bool) ensures r == f64_is_nan(f);
pub assume_specification[f64::is_finite](f: f64) -> (r: bool) ensures r == f64_is_finite(f);
pub assume_specification[f64::abs](f: f64) -> (r: f64) ensures r == f64_abs(f);
pub assume_specification[f64::trunc](f: f64) -> (r: f64) ensures r == f64_trunc(f);

pub assume_specification<T: std::ops::Deref> [std::option::Option::<T>::as_deref] (o: &std::option::Option<T>) -> (r: std::option::Option<&<T as std::ops::Deref>::Target>)
    ensures r is Some <==> o is Some;
// ASCII classification of characters / bytes (std; exact)
pub assume_specification[char::is_ascii_digit](c: &char) -> (r: bool) ensures r == ('0' <= *c && *c <= '9');
pub assume_specification[u8::is_ascii_digit](c: &u8) -> (r: bool) ensures r == (48 <= *c && *c <= 57);
pub assume_specification[char::is_ascii_hexdigit](c: &char) -> (r: bool) ensures r == (('0' <= *c && *c <= '9') || ('a' <= *c && *c <= 'f') || ('A' <= *c && *c <= 'F'));
pub assume_specification[char::is_ascii](c: &char) -> (r: bool) ensures r == ((*c as u32) < 128);
pub assume_specification[u8::is_ascii](c: &u8) -> (r: bool) ensures r == (*c < 128);
pub assume_specification[char::is_ascii_alphabetic](c: &char) -> (r: bool) ensures r == (('a' <= *c && *c <= 'z') || ('A' <= *c && *c <= 'Z'));
