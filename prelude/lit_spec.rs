// ---- property C12: what a CEL string / bytes literal denotes (written from the CEL language definition and CEL.g4) ----
pub mod lit_ax {
    use super::*;
/// code point <-> char (ASSUMED bijection on Unicode scalar values; `char::from_u32` is its partial inverse)
pub uninterp spec fn chr(v: int) -> char;
pub open spec fn is_scalar(v: int) -> bool { (0 <= v < 0xD800) || (0xE000 <= v <= 0x10FFFF) }
#[verifier::external_body]
pub broadcast proof fn axiom_chr_of_char(c: char)
    ensures #[trigger] chr(c as int) == c, is_scalar(c as int)
{}
#[verifier::external_body]
pub broadcast proof fn axiom_char_of_chr(v: int)
    requires is_scalar(v)
    ensures (#[trigger] chr(v)) as int == v
{}
}
pub use lit_ax::{chr, is_scalar};
pub open spec fn hexd(c: char) -> Option<int> {
    if '0' <= c && c <= '9' { Some(c as int - '0' as int) } else if 'a' <= c && c <= 'f' { Some(c as int - 'a' as int + 10) }
    else if 'A' <= c && c <= 'F' { Some(c as int - 'A' as int + 10) } else { None }
}
pub open spec fn octd(c: char) -> Option<int> { if '0' <= c && c <= '7' { Some(c as int - '0' as int) } else { None } }
/// big-endian value of a run of hex digits; None when some character is not a hex digit or the run is empty
pub open spec fn hex_val(t: Seq<char>) -> Option<int>
    decreases t.len()
{
    if t.len() == 0 { None } else {
        match hexd(t.last()) { None => None, Some(d) =>
            if t.len() == 1 { Some(d) } else { match hex_val(t.drop_last()) { None => None, Some(h) => Some(h * 16 + d) } } }
    }
}
pub open spec fn oct_val3(a: char, b: char, c: char) -> Option<int> {
    match (octd(a), octd(b), octd(c)) { (Some(x), Some(y), Some(z)) => Some(x * 64 + y * 8 + z), _ => None }
}
/// the single-character escapes of CEL (ESC_CHAR_SEQ)
pub open spec fn simple_esc(c: char) -> Option<int> {
    if c == 'a' { Some(7) } else if c == 'b' { Some(8) } else if c == 'f' { Some(12) } else if c == 'n' { Some(10) } else if c == 'r' { Some(13) }
    else if c == 't' { Some(9) } else if c == 'v' { Some(11) } else if c == '"' || c == '\'' || c == '\\' || c == '?' || c == '`' { Some(c as int) }
    else { None }
}
/// Escape at the front of `t` (t[0] is the backslash): Some((characters consumed, code point)) for a complete escape form,
/// None when the form is incomplete / unknown.  `\xHH`, `\XHH`, `\uHHHH`, `\UHHHHHHHH`, `\OOO` (first digit 0-3).
pub open spec fn esc_cp(t: Seq<char>) -> Option<(int, int)> {
    if t.len() < 2 { None } else {
        let k = t[1];
        if simple_esc(k) is Some { Some((2, simple_esc(k)->Some_0)) }
        else if k == 'x' || k == 'X' { if t.len() >= 4 && hex_val(t.subrange(2, 4)) is Some { Some((4, hex_val(t.subrange(2, 4))->Some_0)) } else { None } }
        else if k == 'u' { if t.len() >= 6 && hex_val(t.subrange(2, 6)) is Some { Some((6, hex_val(t.subrange(2, 6))->Some_0)) } else { None } }
        else if k == 'U' { if t.len() >= 10 && hex_val(t.subrange(2, 10)) is Some { Some((10, hex_val(t.subrange(2, 10))->Some_0)) } else { None } }
        else if '0' <= k && k <= '3' { if t.len() >= 4 && oct_val3(t[1], t[2], t[3]) is Some { Some((4, oct_val3(t[1], t[2], t[3])->Some_0)) } else { None } }
        else { None }
    }
}
/// every backslash of the body starts a complete escape form, and `stop` (the delimiting quote of a one-line literal, if any)
/// does not occur unescaped: what the lexer guarantees for the body of a non-raw token
pub open spec fn wf_body(t: Seq<char>, stop: Option<char>) -> bool
    decreases t.len()
{
    if t.len() == 0 { true }
    else if t[0] == '\\' { match esc_cp(t) { None => false, Some(p) => wf_body(t.skip(p.0), stop) } }
    else { Some(t[0]) != stop && wf_body(t.skip(1), stop) }
}
/// `\'` inside "..." or `\"` inside '...' (an escaped quote of the other kind)
pub open spec fn has_cross_quote(t: Seq<char>, q: char) -> bool
    decreases t.len()
{
    if t.len() == 0 { false }
    else if t[0] == '\\' { match esc_cp(t) { None => false, Some(p) =>
        ((t[1] == '"' || t[1] == '\'') && t[1] != q) || has_cross_quote(t.skip(p.0), q) } }
    else { has_cross_quote(t.skip(1), q) }
}
/// THE MEANING of a non-raw string body: verbatim characters and the code points named by the escapes;
/// None when an escape names no Unicode scalar value (a compile error)
pub open spec fn dec(t: Seq<char>) -> Option<Seq<char>>
    decreases t.len()
{
    if t.len() == 0 { Some(Seq::empty()) }
    else if t[0] == '\\' { match esc_cp(t) { None => None, Some(p) =>
        if !is_scalar(p.1) { None } else { match dec(t.skip(p.0)) { None => None, Some(r) => Some(seq![chr(p.1)] + r) } } } }
    else { match dec(t.skip(1)) { None => None, Some(r) => Some(seq![t[0]] + r) } }
}
/// the observation compared with `dec`: decoded text, or "compile error"
pub open spec fn lit_ok(res: Result<String, ParseSequenceError>, want: Option<Seq<char>>) -> bool {
    match want { Some(r) => res matches Ok(o) && o@ == r, None => res is Err }
}
// token shapes (CEL.g4 STRING alternatives)
pub open spec fn is_q(c: char) -> bool { c == '\'' || c == '"' }
pub open spec fn plain_tok(t: Seq<char>) -> bool { t.len() >= 2 && is_q(t[0]) && t.last() == t[0] && wf_body(t.subrange(1, t.len() - 1), Some(t[0])) }
pub open spec fn plain_body(t: Seq<char>) -> Seq<char> { t.subrange(1, t.len() - 1) }
pub open spec fn triple_tok(t: Seq<char>) -> bool {
    t.len() >= 6 && is_q(t[0]) && t[1] == t[0] && t[2] == t[0] && t[t.len() - 1] == t[0] && t[t.len() - 2] == t[0] && t[t.len() - 3] == t[0]
    && wf_body(t.subrange(3, t.len() - 3), None)
}
pub open spec fn triple_body(t: Seq<char>) -> Seq<char> { t.subrange(3, t.len() - 3) }
pub open spec fn no_char(t: Seq<char>, q: char) -> bool { forall|i: int| 0 <= i < t.len() ==> t[i] != q }
pub open spec fn raw_tok(t: Seq<char>) -> bool {
    t.len() >= 3 && (t[0] == 'r' || t[0] == 'R') && is_q(t[1]) && t.last() == t[1] && no_char(t.subrange(2, t.len() - 1), t[1])
}
pub open spec fn raw_body(t: Seq<char>) -> Seq<char> { t.subrange(2, t.len() - 1) }
pub open spec fn raw_triple_tok(t: Seq<char>) -> bool {
    t.len() >= 7 && (t[0] == 'r' || t[0] == 'R') && is_q(t[1]) && t[2] == t[1] && t[3] == t[1]
    && t[t.len() - 1] == t[1] && t[t.len() - 2] == t[1] && t[t.len() - 3] == t[1]
}
pub open spec fn raw_triple_body(t: Seq<char>) -> Seq<char> { t.subrange(4, t.len() - 3) }
/// the scan of a raw body pairs every backslash with the character after it; false when the body ends in an unpaired backslash
pub open spec fn raw_scan_ok(t: Seq<char>) -> bool
    decreases t.len()
{
    if t.len() == 0 { true } else if t[0] == '\\' { t.len() >= 2 && raw_scan_ok(t.skip(2)) } else { raw_scan_ok(t.skip(1)) }
}
// ---- bytes literals ----
/// UTF-8 encoding of one character (ASSUMED std `char::encode_utf8`; only its length is interpreted)
pub uninterp spec fn utf8_bytes(c: char) -> Seq<u8>;
pub open spec fn utf8_len(c: char) -> nat { if (c as u32) < 0x80 { 1 } else if (c as u32) < 0x800 { 2 } else if (c as u32) < 0x10000 { 3 } else { 4 } }
/// escape at the front of a bytes body: (characters consumed, byte).  `\u` / `\U` are not allowed in bytes literals.
pub open spec fn esc_byte(t: Seq<char>) -> Option<(int, int)> {
    if t.len() < 2 { None } else {
        let k = t[1];
        if simple_esc(k) is Some { Some((2, simple_esc(k)->Some_0)) }
        else if k == 'x' || k == 'X' { if t.len() >= 4 && hex_val(t.subrange(2, 4)) is Some { Some((4, hex_val(t.subrange(2, 4))->Some_0)) } else { None } }
        else if '0' <= k && k <= '3' { if t.len() >= 4 && oct_val3(t[1], t[2], t[3]) is Some { Some((4, oct_val3(t[1], t[2], t[3])->Some_0)) } else { None } }
        else { None }
    }
}
/// the body of a (non-raw) bytes token as the lexer delivers it: every backslash starts a complete escape form
/// (`\u`, `\U` included: they lex, but denote nothing in a bytes literal)
pub open spec fn wf_bytes_body(t: Seq<char>) -> bool { wf_body(t, None) }
/// THE MEANING of a bytes body: escapes denote one byte each, other characters their UTF-8 encoding; `\u`/`\U` are errors
pub open spec fn dec_bytes(t: Seq<char>) -> Option<Seq<u8>>
    decreases t.len()
{
    if t.len() == 0 { Some(Seq::empty()) }
    else if t[0] == '\\' { match esc_byte(t) { None => None, Some(p) =>
        match dec_bytes(t.skip(p.0)) { None => None, Some(r) => Some(seq![p.1 as u8] + r) } } }
    else { match dec_bytes(t.skip(1)) { None => None, Some(r) => Some(utf8_bytes(t[0]) + r) } }
}
pub open spec fn bytes_is(r: Result<Vec<u8>, ParseSequenceError>, want: Option<Seq<u8>>) -> bool {
    match want { Some(w) => r matches Ok(o) && o@ == w, None => r is Err }
}
/// UTF-8 encoding of a text (what a raw bytes literal denotes)
pub open spec fn utf8_of(t: Seq<char>) -> Option<Seq<u8>>
    decreases t.len()
{
    if t.len() == 0 { Some(Seq::empty()) } else { match utf8_of(t.skip(1)) { Some(r) => Some(utf8_bytes(t[0]) + r), None => None } }
}
