// ---- stand-ins for the binary-operator alternatives of the generated parse tree (ASSUMED environment, as in visitor_env.rs) ----
#[verifier::external_body] pub struct RelationContextAll { x: u8 }
#[verifier::external_body] pub struct CalcContextAll { x: u8 }
#[verifier::external_body] pub struct UnaryContextAll { x: u8 }
/// the AST (modulo ids) the visitor builds for a sub-tree: uninterpreted, i.e. nothing is assumed about it beyond determinism
pub uninterp spec fn visit_rel_spec(node: RelationContextAll) -> Expr;
pub uninterp spec fn visit_calc_spec(node: CalcContextAll) -> Expr;
pub uninterp spec fn visit_unary_spec(node: UnaryContextAll) -> Expr;
pub uninterp spec fn tok_text(t: CommonToken) -> Seq<char>;
/// operators::find_operator: verified against the operator table find_operator_spec (prelude/operators_spec.rs) in group operators
impl CommonToken {
    #[verifier::external_body] pub fn get_text(&self) -> (r: &str) ensures r@ == tok_text(*self) { unimplemented!() }
}
pub struct RelationContext { pub op: Option<Box<CommonToken>>, pub rels: Vec<Rc<RelationContextAll>>, pub c: Option<Rc<CalcContextAll>> }
impl RelationContext {
    #[verifier::external_body] pub fn calc(&self) -> (r: Option<Rc<CalcContextAll>>) ensures r == self.c { unimplemented!() }
    #[verifier::external_body] pub fn relation(&self, i: usize) -> (r: Option<Rc<RelationContextAll>>)
        ensures r == (if i < self.rels@.len() { Some(self.rels@[i as int]) } else { None::<Rc<RelationContextAll>> }) { unimplemented!() }
    #[verifier::external_body] pub fn start(&self) -> Rc<CommonToken> { unimplemented!() }
}
pub struct CalcContext { pub op: Option<Box<CommonToken>>, pub calcs: Vec<Rc<CalcContextAll>>, pub u: Option<Rc<UnaryContextAll>> }
impl CalcContext {
    #[verifier::external_body] pub fn unary(&self) -> (r: Option<Rc<UnaryContextAll>>) ensures r == self.u { unimplemented!() }
    #[verifier::external_body] pub fn calc(&self, i: usize) -> (r: Option<Rc<CalcContextAll>>)
        ensures r == (if i < self.calcs@.len() { Some(self.calcs@[i as int]) } else { None::<Rc<CalcContextAll>> }) { unimplemented!() }
    #[verifier::external_body] pub fn start(&self) -> Rc<CommonToken> { unimplemented!() }
}
pub mod operators_fn {
    use super::*;
    #[verifier::external_body]
    pub fn find_operator(input: &str) -> (r: Option<&'static str>)
        ensures match find_operator_spec(input@) { Some(n) => r matches Some(s) && s@ == n, None => r is None }
    { unimplemented!() }
}
#[verifier::external_body] pub fn __fmt_unknown_op(t: &str) -> String { unimplemented!() }
#[verifier::external_body] pub fn __fmt_incomplete_rel(op: &Option<Box<CommonToken>>) -> String { unimplemented!() }
#[verifier::external_body] pub fn __str_to_string(s: &str) -> (r: String) ensures r@ == s@ { unimplemented!() }
impl Parser {
    #[verifier::external_body] fn visit_rel(&mut self, node: &RelationContextAll) -> (r: IdedExpr) ensures r.expr == visit_rel_spec(*node) { unimplemented!() }
    #[verifier::external_body] fn visit_calc_node(&mut self, node: &CalcContextAll) -> (r: IdedExpr) ensures r.expr == visit_calc_spec(*node) { unimplemented!() }
    #[verifier::external_body] fn visit_unary_node(&mut self, node: &UnaryContextAll) -> (r: IdedExpr) ensures r.expr == visit_unary_spec(*node) { unimplemented!() }
    #[verifier::external_body] fn report_error_str(&mut self, token: &CommonToken, s: String) -> (r: IdedExpr)
        ensures final(self).errors@.len() == old(self).errors@.len() + 1 { unimplemented!() }
    /// `visit_children` (antlr4rust default walk): only reachable on a branch the surrounding `if` excludes
    #[verifier::external_body] fn visit_children_rel(&mut self, ctx: &RelationContext) -> IdedExpr { unimplemented!() }
}
/// a binary operator node: the named operator applied to exactly the two operand trees, left then right
pub open spec fn bin_node(r: IdedExpr, name: Seq<char>, lhs: Expr, rhs: Expr) -> bool {
    r.expr matches Expr::Call(c) && c.func_name@ == name && c.target is None && c.args@.len() == 2 && c.args@[0].expr == lhs && c.args@[1].expr == rhs
}
// ---- conditional ----
#[verifier::external_body] pub struct ConditionalOrContextAll { x: u8 }
#[verifier::external_body] pub struct ExprContextAll { x: u8 }
pub uninterp spec fn visit_cor_spec(node: ConditionalOrContextAll) -> Expr;
pub uninterp spec fn visit_expr_spec(node: ExprContextAll) -> Expr;
pub struct ExprContext { pub op: Option<Box<CommonToken>>, pub e: Option<Rc<ConditionalOrContextAll>>, pub e1: Option<Rc<ConditionalOrContextAll>>, pub e2: Option<Rc<ExprContextAll>> }
impl ExprContext {
    #[verifier::external_body] pub fn start(&self) -> Rc<CommonToken> { unimplemented!() }
}
#[verifier::external_body] pub fn __fmt_incomplete_expr() -> String { unimplemented!() }
impl Parser {
    #[verifier::external_body] fn visit_cor(&mut self, node: &ConditionalOrContextAll) -> (r: IdedExpr) ensures r.expr == visit_cor_spec(*node) { unimplemented!() }
    #[verifier::external_body] fn visit_expr_node(&mut self, node: &ExprContextAll) -> (r: IdedExpr) ensures r.expr == visit_expr_spec(*node), final(self).errors@.len() >= old(self).errors@.len() { unimplemented!() }
}
// ---- || and && chains ----
#[verifier::external_body] pub struct ConditionalAndContextAll { x: u8 }
pub uninterp spec fn visit_cand_spec(node: ConditionalAndContextAll) -> Expr;
pub struct ConditionalOrContext { pub ops: Vec<CommonToken>, pub e: Option<Rc<ConditionalAndContextAll>>, pub e1: Vec<Rc<ConditionalAndContextAll>> }
impl ConditionalOrContext { #[verifier::external_body] pub fn start(&self) -> Rc<CommonToken> { unimplemented!() } }
pub struct ConditionalAndContext { pub ops: Vec<CommonToken>, pub e: Option<Rc<RelationContextAll>>, pub e1: Vec<Rc<RelationContextAll>> }
impl ConditionalAndContext { #[verifier::external_body] pub fn start(&self) -> Rc<CommonToken> { unimplemented!() } }
impl Parser {
    #[verifier::external_body] fn visit_cand(&mut self, node: &ConditionalAndContextAll) -> (r: IdedExpr) ensures r.expr == visit_cand_spec(*node) { unimplemented!() }
}
/// `e` is a balanced tree of `f` calls whose operands, read left to right, are `first` followed by `rest` (ids aside)
pub open spec fn chain_of(e: IdedExpr, f: Seq<char>, first: Expr, rest: Seq<Expr>) -> bool {
    exists|fs: String, ts: Seq<IdedExpr>, os: Seq<u64>| #[trigger] chain_ok(e, fs, ts, os) && fs@ == f && ts.len() == rest.len() + 1
        && ts[0].expr == first && (forall|j: int| 0 <= j < rest.len() ==> (#[trigger] ts[j + 1]).expr == rest[j])
}
// ---- select / index ----
pub struct SelectContext { pub m: Option<Rc<MemberContextAll>>, pub id: Option<Box<CommonToken>>, pub op: Option<Box<CommonToken>>, pub opt: Option<Box<CommonToken>> }
impl SelectContext {
    #[verifier::external_body] pub fn member(&self) -> (r: Option<Rc<MemberContextAll>>) ensures r == self.m { unimplemented!() }
    #[verifier::external_body] pub fn start(&self) -> Rc<CommonToken> { unimplemented!() }
}
pub struct IndexContext { pub m: Option<Rc<MemberContextAll>>, pub index: Option<Rc<ExprContextAll>>, pub op: Option<Box<CommonToken>>, pub opt: Option<Box<CommonToken>> }
impl IndexContext {
    #[verifier::external_body] pub fn member(&self) -> (r: Option<Rc<MemberContextAll>>) ensures r == self.m { unimplemented!() }
    #[verifier::external_body] pub fn start(&self) -> Rc<CommonToken> { unimplemented!() }
}
impl CommonToken {
    /// `get_text()` of an identifier token as an owned String (the generated token type returns Cow / String)
    #[verifier::external_body] pub fn get_text_string(&self) -> (r: String) ensures r@ == tok_text(*self) { unimplemented!() }
}
