// ---- reference semantics of evaluation: ev(expr, env, funcs) ----
// Written from the property statements (C03, C06, C08, C09, C10, C11, C14): operands left to right,
// first error aborts, short-circuit logic, checked 64-bit arithmetic, null for an absent index.
// `Err(Unmodelled)` marks what this semantics deliberately leaves open (see `refines`).

/// result of calling a host / built-in function through its `dyn Fn` object (ASSUMED: deterministic function of
/// the receiver value, the *unevaluated* argument expressions, the variable scopes and the registry)
pub uninterp spec fn host_spec(f: Function, this: Option<SVal>, args: Seq<IdedExpr>, env: Env, funcs: Funcs) -> SRes;
/// std: `str::contains(&str)`, `str::get(range)` (byte-indexed slicing): dependency internals
pub uninterp spec fn str_contains(hay: Seq<char>, needle: Seq<char>) -> bool;
/// `Display` text of a map key (core::fmt): dependency internals; for string keys it is the string itself
pub uninterp spec fn key_text(k: SKey) -> Seq<char>;
/// exact comparison of the integer `i` with the number denoted by the double `f` (None iff f is NaN).
/// Uninterpreted on the Verus side; the real helper that computes it is proved bit-precisely by Kani.
pub uninterp spec fn icmpf(i: int, f: f64) -> Option<Ordering>;

#[verifier::opaque]
pub open spec fn op_index(s: Seq<char>) -> int {
    if s == operators::CONDITIONAL@ { 1 }
    else if s == operators::LOGICAL_AND@ { 2 }
    else if s == operators::LOGICAL_OR@ { 3 }
    else if s == operators::LOGICAL_NOT@ { 4 }
    else if s == operators::SUBSTRACT@ { 5 }
    else if s == operators::ADD@ { 6 }
    else if s == operators::MULTIPLY@ { 7 }
    else if s == operators::DIVIDE@ { 8 }
    else if s == operators::MODULO@ { 9 }
    else if s == operators::EQUALS@ { 10 }
    else if s == operators::NOT_EQUALS@ { 11 }
    else if s == operators::GREATER_EQUALS@ { 12 }
    else if s == operators::LESS_EQUALS@ { 13 }
    else if s == operators::GREATER@ { 14 }
    else if s == operators::LESS@ { 15 }
    else if s == operators::NEGATE@ { 16 }
    else if s == operators::INDEX@ { 17 }
    else if s == operators::NOT_STRICTLY_FALSE@ { 18 }
    else if s == operators::IN@ { 19 }
    else { 0 }
}
/// the nineteen operator names are pairwise distinct strings (proved once from the literals)
pub proof fn lemma_operator_names()
    ensures
        op_index(operators::CONDITIONAL@) == 1,
        op_index(operators::LOGICAL_AND@) == 2,
        op_index(operators::LOGICAL_OR@) == 3,
        op_index(operators::LOGICAL_NOT@) == 4,
        op_index(operators::SUBSTRACT@) == 5,
        op_index(operators::ADD@) == 6,
        op_index(operators::MULTIPLY@) == 7,
        op_index(operators::DIVIDE@) == 8,
        op_index(operators::MODULO@) == 9,
        op_index(operators::EQUALS@) == 10,
        op_index(operators::NOT_EQUALS@) == 11,
        op_index(operators::GREATER_EQUALS@) == 12,
        op_index(operators::LESS_EQUALS@) == 13,
        op_index(operators::GREATER@) == 14,
        op_index(operators::LESS@) == 15,
        op_index(operators::NEGATE@) == 16,
        op_index(operators::INDEX@) == 17,
        op_index(operators::NOT_STRICTLY_FALSE@) == 18,
        op_index(operators::IN@) == 19,
{
    reveal(op_index);
    broadcast use vstd::string::group_string_axioms;
    reveal_strlit("_?_:_");
    reveal_strlit("_&&_");
    reveal_strlit("_||_");
    reveal_strlit("!_");
    reveal_strlit("_-_");
    reveal_strlit("_+_");
    reveal_strlit("_*_");
    reveal_strlit("_/_");
    reveal_strlit("_%_");
    reveal_strlit("_==_");
    reveal_strlit("_!=_");
    reveal_strlit("_>=_");
    reveal_strlit("_<=_");
    reveal_strlit("_>_");
    reveal_strlit("_<_");
    reveal_strlit("-_");
    reveal_strlit("_[_]");
    reveal_strlit("@not_strictly_false");
    reveal_strlit("@in");
    assert(operators::CONDITIONAL@.len() == 5 && operators::CONDITIONAL@[0] == '_' && operators::CONDITIONAL@[1] == '?' && operators::CONDITIONAL@[2] == '_');
    assert(operators::LOGICAL_AND@.len() == 4 && operators::LOGICAL_AND@[0] == '_' && operators::LOGICAL_AND@[1] == '&' && operators::LOGICAL_AND@[2] == '&');
    assert(operators::LOGICAL_OR@.len() == 4 && operators::LOGICAL_OR@[0] == '_' && operators::LOGICAL_OR@[1] == '|' && operators::LOGICAL_OR@[2] == '|');
    assert(operators::LOGICAL_NOT@.len() == 2 && operators::LOGICAL_NOT@[0] == '!' && operators::LOGICAL_NOT@[1] == '_');
    assert(operators::SUBSTRACT@.len() == 3 && operators::SUBSTRACT@[0] == '_' && operators::SUBSTRACT@[1] == '-' && operators::SUBSTRACT@[2] == '_');
    assert(operators::ADD@.len() == 3 && operators::ADD@[0] == '_' && operators::ADD@[1] == '+' && operators::ADD@[2] == '_');
    assert(operators::MULTIPLY@.len() == 3 && operators::MULTIPLY@[0] == '_' && operators::MULTIPLY@[1] == '*' && operators::MULTIPLY@[2] == '_');
    assert(operators::DIVIDE@.len() == 3 && operators::DIVIDE@[0] == '_' && operators::DIVIDE@[1] == '/' && operators::DIVIDE@[2] == '_');
    assert(operators::MODULO@.len() == 3 && operators::MODULO@[0] == '_' && operators::MODULO@[1] == '%' && operators::MODULO@[2] == '_');
    assert(operators::EQUALS@.len() == 4 && operators::EQUALS@[0] == '_' && operators::EQUALS@[1] == '=' && operators::EQUALS@[2] == '=');
    assert(operators::NOT_EQUALS@.len() == 4 && operators::NOT_EQUALS@[0] == '_' && operators::NOT_EQUALS@[1] == '!' && operators::NOT_EQUALS@[2] == '=');
    assert(operators::GREATER_EQUALS@.len() == 4 && operators::GREATER_EQUALS@[0] == '_' && operators::GREATER_EQUALS@[1] == '>' && operators::GREATER_EQUALS@[2] == '=');
    assert(operators::LESS_EQUALS@.len() == 4 && operators::LESS_EQUALS@[0] == '_' && operators::LESS_EQUALS@[1] == '<' && operators::LESS_EQUALS@[2] == '=');
    assert(operators::GREATER@.len() == 3 && operators::GREATER@[0] == '_' && operators::GREATER@[1] == '>' && operators::GREATER@[2] == '_');
    assert(operators::LESS@.len() == 3 && operators::LESS@[0] == '_' && operators::LESS@[1] == '<' && operators::LESS@[2] == '_');
    assert(operators::NEGATE@.len() == 2 && operators::NEGATE@[0] == '-' && operators::NEGATE@[1] == '_');
    assert(operators::INDEX@.len() == 4 && operators::INDEX@[0] == '_' && operators::INDEX@[1] == '[' && operators::INDEX@[2] == '_');
    assert(operators::NOT_STRICTLY_FALSE@.len() == 19 && operators::NOT_STRICTLY_FALSE@[0] == '@' && operators::NOT_STRICTLY_FALSE@[1] == 'n' && operators::NOT_STRICTLY_FALSE@[2] == 'o');
    assert(operators::IN@.len() == 3 && operators::IN@[0] == '@' && operators::IN@[1] == 'i' && operators::IN@[2] == 'n');
}

pub enum BinOp { Add, Sub, Mul, Div, Rem, Eq, Ne, Lt, Le, Gt, Ge, In, Index }

pub open spec fn binop_of(name: Seq<char>) -> Option<BinOp> {
    if name == operators::ADD@ { Some(BinOp::Add) }
    else if name == operators::SUBSTRACT@ { Some(BinOp::Sub) }
    else if name == operators::MULTIPLY@ { Some(BinOp::Mul) }
    else if name == operators::DIVIDE@ { Some(BinOp::Div) }
    else if name == operators::MODULO@ { Some(BinOp::Rem) }
    else if name == operators::EQUALS@ { Some(BinOp::Eq) }
    else if name == operators::NOT_EQUALS@ { Some(BinOp::Ne) }
    else if name == operators::LESS@ { Some(BinOp::Lt) }
    else if name == operators::LESS_EQUALS@ { Some(BinOp::Le) }
    else if name == operators::GREATER@ { Some(BinOp::Gt) }
    else if name == operators::GREATER_EQUALS@ { Some(BinOp::Ge) }
    else if name == operators::IN@ { Some(BinOp::In) }
    else if name == operators::INDEX@ { Some(BinOp::Index) }
    else { None }
}

pub open spec fn rev_ord(o: Option<Ordering>) -> Option<Ordering> {
    match o { Some(Ordering::Less) => Some(Ordering::Greater), Some(Ordering::Greater) => Some(Ordering::Less), x => x }
}
pub open spec fn int_cmp(a: int, b: int) -> Ordering {
    if a < b { Ordering::Less } else if a == b { Ordering::Equal } else { Ordering::Greater }
}
/// strings compare by code point (lexicographic over the characters)
#[verifier::opaque]
pub open spec fn str_cmp(a: Seq<char>, b: Seq<char>) -> Ordering
    decreases a.len()
{
    if a.len() == 0 { if b.len() == 0 { Ordering::Equal } else { Ordering::Less } }
    else if b.len() == 0 { Ordering::Greater }
    else if (a[0] as u32) < (b[0] as u32) { Ordering::Less }
    else if (a[0] as u32) > (b[0] as u32) { Ordering::Greater }
    else { str_cmp(a.subrange(1, a.len() as int), b.subrange(1, b.len() as int)) }
}

/// property C09: ordering. None = not orderable.
#[verifier::opaque]
pub open spec fn vcmp(a: SVal, b: SVal) -> Option<Ordering> {
    match (a, b) {
        (SVal::Int(x), SVal::Int(y)) => Some(int_cmp(x, y)),
        (SVal::UInt(x), SVal::UInt(y)) => Some(int_cmp(x, y)),
        (SVal::Int(x), SVal::UInt(y)) => Some(int_cmp(x, y)),
        (SVal::UInt(x), SVal::Int(y)) => Some(int_cmp(x, y)),
        (SVal::Float(x), SVal::Float(y)) => fcmp(x, y),
        (SVal::Int(x), SVal::Float(y)) => icmpf(x, y),
        (SVal::UInt(x), SVal::Float(y)) => icmpf(x, y),
        (SVal::Float(x), SVal::Int(y)) => rev_ord(icmpf(y, x)),
        (SVal::Float(x), SVal::UInt(y)) => rev_ord(icmpf(y, x)),
        (SVal::Str(x), SVal::Str(y)) => Some(str_cmp(x, y)),
        (SVal::Bool(x), SVal::Bool(y)) => Some(if x == y { Ordering::Equal } else if !x { Ordering::Less } else { Ordering::Greater }),
        (SVal::Null, SVal::Null) => Some(Ordering::Equal),
        (SVal::Duration(x), SVal::Duration(y)) => Some(int_cmp(x, y)),
        (SVal::Timestamp(x, _), SVal::Timestamp(y, _)) => Some(int_cmp(x, y)),
        _ => None,
    }
}
/// property C09: equality. Numbers compare by the number denoted; containers element-wise; unrelated kinds unequal.
#[verifier::opaque]
pub open spec fn veq(a: SVal, b: SVal) -> bool
    decreases a
{
    match (a, b) {
        (SVal::Int(x), SVal::Int(y)) => x == y,
        (SVal::UInt(x), SVal::UInt(y)) => x == y,
        (SVal::Int(x), SVal::UInt(y)) => x == y,
        (SVal::UInt(x), SVal::Int(y)) => x == y,
        (SVal::Float(x), SVal::Float(y)) => feq(x, y),
        (SVal::Int(x), SVal::Float(y)) => icmpf(x, y) == Some(Ordering::Equal),
        (SVal::UInt(x), SVal::Float(y)) => icmpf(x, y) == Some(Ordering::Equal),
        (SVal::Float(x), SVal::Int(y)) => icmpf(y, x) == Some(Ordering::Equal),
        (SVal::Float(x), SVal::UInt(y)) => icmpf(y, x) == Some(Ordering::Equal),
        (SVal::Str(x), SVal::Str(y)) => x == y,
        (SVal::Bytes(x), SVal::Bytes(y)) => x == y,
        (SVal::Bool(x), SVal::Bool(y)) => x == y,
        (SVal::Null, SVal::Null) => true,
        (SVal::Duration(x), SVal::Duration(y)) => x == y,
        (SVal::Timestamp(x, _), SVal::Timestamp(y, _)) => x == y,
        (SVal::List(x), SVal::List(y)) => x.len() == y.len() && forall|i: int| 0 <= i < x.len() ==> veq(#[trigger] x[i], y[i]),
        (SVal::Map(x), SVal::Map(y)) => x.dom() == y.dom() && forall|k: SKey| x.contains_key(k) ==> veq(#[trigger] x[k], y[k]),
        (SVal::Function(n1, t1), SVal::Function(n2, t2)) => n1 == n2 && match (t1, t2) {
            (Some(p), Some(q)) => veq(*p, *q), (None, None) => true, _ => false },
        _ => false,
    }
}
pub open spec fn ord_res(l: SVal, r: SVal, want: Ordering, negate: bool) -> SRes {
    match vcmp(l, r) { Some(o) => Ok(SVal::Bool(if negate { o != want } else { o == want })), None => Err(ErrClass::NotComparable) }
}

// ---- property C14: one notion of key presence for every way of asking ----
pub open spec fn to_key(v: SVal) -> Option<SKey> {
    match v {
        SVal::Int(i) => Some(SKey::Int(i)),
        SVal::UInt(u) => Some(SKey::Uint(u)),
        SVal::Bool(b) => Some(SKey::Bool(b)),
        SVal::Str(s) => Some(SKey::Str(s)),
        _ => None,
    }
}
/// numerically equal int and uint keys are the same key
pub open spec fn twin(k: SKey) -> Option<SKey> {
    match k {
        SKey::Int(i) => if i >= 0 { Some(SKey::Uint(i)) } else { None },
        SKey::Uint(u) => if u <= i64::MAX { Some(SKey::Int(u)) } else { None },
        _ => None,
    }
}
pub open spec fn mget(m: vstd::map::Map<SKey, SVal>, k: SKey) -> Option<SVal> {
    if m.contains_key(k) { Some(m[k]) } else {
        match twin(k) { Some(t) => if m.contains_key(t) { Some(m[t]) } else { None }, None => None }
    }
}
pub open spec fn present(m: vstd::map::Map<SKey, SVal>, k: SKey) -> bool { mget(m, k) is Some }

/// `x in l` holds iff some element of l equals x
#[verifier::opaque]
pub open spec fn list_has(v: Seq<SVal>, x: SVal) -> bool { exists|i: int| 0 <= i < v.len() && veq(#[trigger] v[i], x) }
pub proof fn lemma_list_has(v: Seq<Value>, x: Value)
    ensures list_has(vlist(v), vview(x)) == (exists|i: int| 0 <= i < v.len() && veq(vview(#[trigger] v[i]), vview(x)))
{
    reveal(list_has);
    assert forall|i: int| 0 <= i < v.len() implies #[trigger] vlist(v)[i] == vview(v[i]) by {}
    if list_has(vlist(v), vview(x)) {
        let i = choose|i: int| 0 <= i < vlist(v).len() && veq(#[trigger] vlist(v)[i], vview(x));
        assert(veq(vview(v[i]), vview(x)));
    }
    if exists|i: int| 0 <= i < v.len() && veq(vview(#[trigger] v[i]), vview(x)) {
        let i = choose|i: int| 0 <= i < v.len() && veq(vview(#[trigger] v[i]), vview(x));
        assert(veq(vlist(v)[i], vview(x)));
    }
}
#[verifier::opaque]
pub open spec fn in_spec(l: SVal, r: SVal) -> SRes {
    match (l, r) {
        (SVal::Str(a), SVal::Str(b)) => Ok(SVal::Bool(str_contains(b, a))),
        (any, SVal::List(v)) => Ok(SVal::Bool(list_has(v, any))),
        (any, SVal::Map(m)) => match to_key(any) { Some(k) => Ok(SVal::Bool(present(m, k))), None => Ok(SVal::Bool(false)) },
        _ => Err(ErrClass::NotComparable),
    }
}
#[verifier::opaque]
pub open spec fn index_spec(v: SVal, idx: SVal) -> SRes {
    match (v, idx) {
        (SVal::List(items), SVal::Int(i)) => if 0 <= i < items.len() { Ok(items[i]) } else { Ok(SVal::Null) },
        (SVal::Str(_), SVal::Int(_)) => Err(ErrClass::Unmodelled),     // byte-indexed slicing: not part of CEL
        (SVal::Map(m), SVal::Str(_)) | (SVal::Map(m), SVal::Bool(_)) | (SVal::Map(m), SVal::Int(_)) | (SVal::Map(m), SVal::UInt(_)) =>
            match mget(m, to_key(idx)->Some_0) { Some(x) => Ok(x), None => Ok(SVal::Null) },
        (SVal::Map(_), _) => Err(ErrClass::UnsupportedMapIndex),
        (SVal::List(_), _) => Err(ErrClass::UnsupportedListIndex),
        _ => Err(ErrClass::UnsupportedIndex),
    }
}
pub open spec fn binop_spec(op: BinOp, l: SVal, r: SVal) -> SRes {
    match op {
        BinOp::Add => add_spec(l, r),
        BinOp::Sub => sub_spec(l, r),
        BinOp::Mul => mul_spec(l, r),
        BinOp::Div => div_spec(l, r),
        BinOp::Rem => rem_spec(l, r),
        BinOp::Eq => Ok(SVal::Bool(veq(l, r))),
        BinOp::Ne => Ok(SVal::Bool(!veq(l, r))),
        BinOp::Lt => ord_res(l, r, Ordering::Less, false),
        BinOp::Le => ord_res(l, r, Ordering::Greater, true),     // a <= b  iff  a < b || a == b
        BinOp::Gt => ord_res(l, r, Ordering::Greater, false),
        BinOp::Ge => ord_res(l, r, Ordering::Less, true),
        BinOp::In => in_spec(l, r),
        BinOp::Index => index_spec(l, r),
    }
}
#[verifier::opaque]
pub open spec fn member_spec(v: SVal, field: Seq<char>, fs: Funcs) -> SRes {
    let child = match v { SVal::Map(m) => if m.contains_key(SKey::Str(field)) { Some(m[SKey::Str(field)]) } else { None }, _ => None };
    match child {
        Some(c) => Ok(c),
        None => if fs.contains_key(field) { Ok(SVal::Function(field, Some(Box::new(v)))) } else { Err(ErrClass::NoSuchKey) },
    }
}
#[verifier::opaque]
pub open spec fn has_spec(v: SVal, field: Seq<char>) -> SVal {
    match v {
        SVal::Map(m) => SVal::Bool(exists|k: SKey| m.contains_key(k) && #[trigger] key_text(k) == field),
        _ => SVal::Bool(false),
    }
}

pub open spec fn is_op(c: CallExpr, name: &'static str, arity: int) -> bool {
    c.func_name@ == name@ && c.args@.len() == arity
}
/// the call shapes that `resolve` treats as operators (by name and arity; the parser never gives them a receiver)
pub open spec fn is_operator_form(c: CallExpr) -> bool {
    is_op(c, operators::CONDITIONAL, 3)
    || (c.args@.len() == 2 && (binop_of(c.func_name@) is Some || c.func_name@ == operators::LOGICAL_OR@ || c.func_name@ == operators::LOGICAL_AND@))
    || (c.args@.len() == 1 && (c.func_name@ == operators::LOGICAL_NOT@ || c.func_name@ == operators::NEGATE@ || c.func_name@ == operators::NOT_STRICTLY_FALSE@))
}

pub open spec fn ev(e: IdedExpr, env: Env, fs: Funcs) -> SRes
    decreases e, 0nat, 0nat
{
    match e.expr {
        Expr::Literal(v) => Ok(val_view(v)),
        Expr::Ident(name) => match alookup(env, name) { Some(sv) => Ok(sv), None => Err(ErrClass::Undeclared(name@)) },
        Expr::Call(c) => {
            if is_op(c, operators::CONDITIONAL, 3) {
                // exactly one branch is evaluated (C06)
                match ev(c.args@[0], env, fs) { Err(x) => Err(x), Ok(cv) => if truthy(cv) { ev(c.args@[1], env, fs) } else { ev(c.args@[2], env, fs) } }
            } else if is_op(c, operators::LOGICAL_AND, 2) {
                match ev(c.args@[0], env, fs) { Err(x) => Err(x), Ok(l) => if !truthy(l) { Ok(SVal::Bool(false)) } else {
                    match ev(c.args@[1], env, fs) { Err(x) => Err(x), Ok(r) => Ok(SVal::Bool(truthy(r))) } } }
            } else if is_op(c, operators::LOGICAL_OR, 2) {
                match ev(c.args@[0], env, fs) { Err(x) => Err(x), Ok(l) => if truthy(l) { Ok(l) } else { ev(c.args@[1], env, fs) } }
            } else if c.args@.len() == 2 && binop_of(c.func_name@) is Some {
                match ev(c.args@[0], env, fs) { Err(x) => Err(x), Ok(l) =>
                    match ev(c.args@[1], env, fs) { Err(x) => Err(x), Ok(r) => binop_spec(binop_of(c.func_name@)->Some_0, l, r) } }
            } else if is_op(c, operators::LOGICAL_NOT, 1) {
                match ev(c.args@[0], env, fs) { Err(x) => Err(x), Ok(v) => Ok(SVal::Bool(!truthy(v))) }
            } else if is_op(c, operators::NEGATE, 1) {
                match ev(c.args@[0], env, fs) { Err(x) => Err(x), Ok(v) => neg_spec(v) }
            } else if is_op(c, operators::NOT_STRICTLY_FALSE, 1) {
                match ev(c.args@[0], env, fs) { Err(x) => Err(x), Ok(v) => Ok(match v { SVal::Bool(b) => SVal::Bool(b), _ => SVal::Bool(true) }) }
            } else {
                // function call: the name is looked up in the registry only; the receiver is evaluated first, the
                // arguments are handed over unevaluated (C07) -- what the function does with them is host_spec
                if !fs.contains_key(c.func_name@) { Err(ErrClass::Undeclared(c.func_name@)) } else {
                    match c.target {
                        None => host_spec(fs[c.func_name@], None, c.args@, env, fs),
                        Some(t) => match ev(*t, env, fs) { Err(x) => Err(x), Ok(tv) => host_spec(fs[c.func_name@], Some(tv), c.args@, env, fs) },
                    }
                }
            }
        }
        Expr::Select(s) => match ev(*s.operand, env, fs) { Err(x) => Err(x), Ok(v) =>
            if s.test { Ok(has_spec(v, s.field@)) } else { member_spec(v, s.field@, fs) } },
        Expr::List(l) => match ev_elems(l, 0, env, fs) { Err(x) => Err(x), Ok(vs) => Ok(SVal::List(vs)) },
        Expr::Map(m) => match ev_entries(m, 0, vstd::map::Map::<SKey, SVal>::empty(), env, fs) { Err(x) => Err(x), Ok(mm) => Ok(SVal::Map(mm)) },
        Expr::Comprehension(c) => match ev(*c.accu_init, env, fs) { Err(x) => Err(x), Ok(a0) =>
            match ev(*c.iter_range, env, fs) { Err(x) => Err(x), Ok(range) => match range {
                // range and initial accumulator are evaluated in the OUTER scope; the fold runs in a fresh inner scope (C11)
                SVal::List(items) => match fold_list(c, items, 0, env.push(vstd::map::Map::<String, SVal>::empty().insert(c.accu_var, a0)), fs) {
                    Err(x) => Err(x),
                    Ok(env2) => ev(*c.result, env2, fs),
                },
                SVal::Map(_) => Err(ErrClass::Unmodelled),      // iteration order of a hash map is unspecified
                _ => Err(ErrClass::UnsupportedTargetType),
            } } },
        Expr::Struct(_) => Err(ErrClass::Unmodelled),
        Expr::Unspecified => Err(ErrClass::Unmodelled),
    }
}
/// list literal: elements left to right, first error aborts
pub open spec fn ev_elems(l: ListExpr, i: int, env: Env, fs: Funcs) -> Result<Seq<SVal>, ErrClass>
    decreases l, l.elements@.len() - i, 0nat
{
    if i < 0 || i >= l.elements@.len() { Ok(Seq::empty()) } else {
        match ev(l.elements@[i], env, fs) { Err(x) => Err(x), Ok(v) =>
            match ev_elems(l, i + 1, env, fs) { Err(x) => Err(x), Ok(rest) => Ok(seq![v] + rest) } }
    }
}
/// map literal: per entry key then value, left to right; a non-key value is an error; later duplicates overwrite
pub open spec fn ev_entries(m: MapExpr, i: int, acc: vstd::map::Map<SKey, SVal>, env: Env, fs: Funcs) -> Result<vstd::map::Map<SKey, SVal>, ErrClass>
    decreases m, m.entries@.len() - i, 0nat
{
    if i < 0 || i >= m.entries@.len() { Ok(acc) } else {
        match m.entries@[i].expr {
            EntryExpr::StructField(_) => Err(ErrClass::Unmodelled),
            EntryExpr::MapEntry(e) => match ev(e.key, env, fs) { Err(x) => Err(x), Ok(kv) => match to_key(kv) {
                None => Err(ErrClass::UnsupportedKeyType),
                Some(k) => match ev(e.value, env, fs) { Err(x) => Err(x), Ok(v) => ev_entries(m, i + 1, acc.insert(k, v), env, fs) } } },
        }
    }
}
/// property C10: the comprehension fold over a list from position i; the innermost scope of `env` holds the
/// accumulator and the iteration variable. Stops at the first element where the condition is not truthy;
/// an error of the condition / step on a reached element aborts; later elements are not visited.
pub open spec fn fold_list(c: ComprehensionExpr, items: Seq<SVal>, i: int, env: Env, fs: Funcs) -> Result<Env, ErrClass>
    decreases c, items.len() - i, 1nat
    when env.len() > 0
{
    if i < 0 || i >= items.len() { Ok(env) } else {
        match ev(*c.loop_cond, env, fs) {
            Err(x) => Err(x),
            Ok(cv) => if !truthy(cv) { Ok(env) } else {
                let env1 = bind(env, c.iter_var, items[i]);
                match ev(*c.loop_step, env1, fs) {
                    Err(x) => Err(x),
                    Ok(a) => fold_list(c, items, i + 1, bind(env1, c.accu_var, a), fs),
                }
            }
        }
    }
}

/// staging: the node kinds (deeply) covered by the refinement contract of `resolve` in this round.
/// An uncovered kind makes the antecedent false for every tree containing it: nothing is assumed about it.
pub open spec fn in_fragment(e: IdedExpr) -> bool
    decreases e
{
    match e.expr {
        Expr::Literal(_) => true,
        Expr::Ident(_) => true,
        Expr::Comprehension(c) => in_fragment(*c.accu_init) && in_fragment(*c.iter_range) && in_fragment(*c.loop_cond) && in_fragment(*c.loop_step) && in_fragment(*c.result),
        Expr::Call(c) => {
            (is_op(c, operators::CONDITIONAL, 3) && in_fragment(c.args@[0]) && in_fragment(c.args@[1]) && in_fragment(c.args@[2]))
            || (!is_op(c, operators::CONDITIONAL, 3) && c.args@.len() == 2 && is_operator_form(c) && in_fragment(c.args@[0]) && in_fragment(c.args@[1]))
            || (c.args@.len() == 1 && is_operator_form(c) && in_fragment(c.args@[0]))
            || (!is_operator_form(c) && (c.target matches Some(t) ==> in_fragment(*t)))
        }
        Expr::Select(s) => in_fragment(*s.operand),
        Expr::List(l) => forall|i: int| 0 <= i < l.elements@.len() ==> in_fragment(#[trigger] l.elements@[i]),
        Expr::Map(m) => forall|i: int| 0 <= i < m.entries@.len() ==> ((#[trigger] m.entries@[i]).expr matches EntryExpr::MapEntry(en) && in_fragment(en.key) && in_fragment(en.value)),
        _ => false,
    }
}
/// parser-produced trees never contain `Expr::Unspecified` and map literals contain only map entries (ASSUMED: property C01's side)
pub open spec fn ast_wf(e: IdedExpr) -> bool
    decreases e
{
    match e.expr {
        Expr::Unspecified => false,
        Expr::Literal(_) => true,
        Expr::Ident(_) => true,
        Expr::Call(c) => (forall|i: int| 0 <= i < c.args@.len() ==> ast_wf(#[trigger] c.args@[i])) && (c.target matches Some(t) ==> ast_wf(*t)),
        Expr::Select(s) => ast_wf(*s.operand),
        Expr::List(l) => forall|i: int| 0 <= i < l.elements@.len() ==> ast_wf(#[trigger] l.elements@[i]),
        Expr::Map(m) => forall|i: int| 0 <= i < m.entries@.len() ==> ((#[trigger] m.entries@[i]).expr matches EntryExpr::MapEntry(en) && ast_wf(en.key) && ast_wf(en.value)),
        Expr::Comprehension(c) => ast_wf(*c.accu_init) && ast_wf(*c.iter_range) && ast_wf(*c.loop_cond) && ast_wf(*c.loop_step) && ast_wf(*c.result),
        Expr::Struct(_) => true,
    }
}

pub broadcast proof fn lemma_amap_insert(m: vstd::map::Map<Key, Value>, k: Key, v: Value)
    ensures #[trigger] amap(m.insert(k, v)) =~= amap(m).insert(kview(k), vview(v))
{
    let m2 = m.insert(k, v);
    let l = amap(m2); let r = amap(m).insert(kview(k), vview(v));
    assert forall|sk: SKey| l.contains_key(sk) == r.contains_key(sk) by {
        lemma_amap_dom(m2, sk); lemma_amap_dom(m, sk);
        if l.contains_key(sk) {
            let k2 = choose|k2: Key| m2.contains_key(k2) && kview(k2) == sk;
            if k2 != k { assert(m.contains_key(k2)); }
        }
        if r.contains_key(sk) && sk != kview(k) {
            let k2 = choose|k2: Key| m.contains_key(k2) && kview(k2) == sk;
            assert(m2.contains_key(k2));
        }
        if sk == kview(k) { assert(m2.contains_key(k)); }
    }
    assert forall|sk: SKey| l.contains_key(sk) implies l[sk] == r[sk] by {
        lemma_amap_dom(m2, sk);
        let k2 = choose|k2: Key| m2.contains_key(k2) && kview(k2) == sk;
        lemma_amap_get(m2, k2);
        if k2 != k {
            lemma_amap_get(m, k2);
            if kview(k2) == kview(k) { lemma_kview_injective(k2, k); }
        }
    }
}
pub proof fn lemma_amap_empty()
    ensures amap(vstd::map::Map::<Key, Value>::empty()) =~= vstd::map::Map::<SKey, SVal>::empty()
{
    assert forall|sk: SKey| !amap(vstd::map::Map::<Key, Value>::empty()).contains_key(sk) by {
        lemma_amap_dom(vstd::map::Map::<Key, Value>::empty(), sk);
    }
}
pub proof fn lemma_value_key(v: Value)
    ensures match value_key(v) { Some(k) => to_key(vview(v)) == Some(kview(k)), None => to_key(vview(v)) is None }
{
}

pub proof fn lemma_ev_elems_step(l: ListExpr, k: int, env: Env, fs: Funcs, pre: Seq<SVal>, v: SVal)
    requires 0 <= k < l.elements@.len(), ev(l.elements@[k], env, fs) == Ok::<SVal, ErrClass>(v)
    ensures (match ev_elems(l, k, env, fs) { Err(x) => Err::<Seq<SVal>, ErrClass>(x), Ok(rest) => Ok(pre + rest) })
         == (match ev_elems(l, k + 1, env, fs) { Err(x) => Err::<Seq<SVal>, ErrClass>(x), Ok(rest) => Ok(pre.push(v) + rest) })
{
    match ev_elems(l, k + 1, env, fs) {
        Ok(rest) => { assert(pre + (seq![v] + rest) =~= pre.push(v) + rest); }
        Err(_) => {}
    }
}
