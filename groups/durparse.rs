//@include prelude/head.rs
//@include prelude/verus_open.rs
//@include prelude/chrono.rs
//@include prelude/nom_env.rs
use crate::chrono::Duration;
use nom::IResult;
use nom::number::complete::double;
//@item interpreter/src/duration.rs :: enum Unit [pub]
//@include prelude/durparse_spec.rs
#[verifier::external_body] pub fn __str_eq(a: &str, b: &str) -> (r: bool) ensures r == (a@ == b@) { a == b }
#[verifier::external_body] pub fn __scale_trunc(num: f64, n: i64) -> (r: i64) ensures r == scale_trunc(num, n as int) { unimplemented!() }
#[verifier::external_body] pub fn __plain_decimal_text(t: &str) -> (r: bool) ensures r == plain_decimal(t@) { unimplemented!() }
/// `&i[..i.len() - rest.len()]` where rest is a suffix of i (byte-indexed slicing of a str)
#[verifier::external_body] pub fn __consumed<'a>(i: &'a str, rest: &str) -> (r: &'a str)
    requires exists|k: int| 0 <= k <= i@.len() && rest@ == i@.skip(k)
    ensures forall|k: int| 0 <= k <= i@.len() && rest@ == i@.skip(k) ==> r@ == i@.subrange(0, k) { unimplemented!() }
broadcast use {vstd::string::group_string_axioms};
//@verify durparse.nanos
//@verify durparse.parse_unit
//@verify durparse.parse_negative
//@verify durparse.to_duration
//@verify durparse.parse_number_unit
//@verify durparse.parse_duration
} // verus!
fn main() {}
