//@include prelude/head.rs
//@include prelude/verus_open.rs
//@include prelude/chrono.rs
//@include prelude/types.rs
//@include prelude/ax.rs
//@include prelude/spec.rs
//@include prelude/ctx.rs
//@include prelude/ev.rs
//@include prelude/env_context.rs
broadcast use {vstd::std_specs::hash::group_hash_axioms, ax::axiom_string_ext, ax::axiom_string_into_string, ax::axiom_refstring_into_string, ax::axiom_str_into_string, ax::axiom_value_into_value};
// `==` on values (a change may compare values here): Value::eq under its contract (verified in group ops)
impl PartialEqSpecImpl for Value {
    open spec fn obeys_eq_spec() -> bool { true }
    open spec fn eq_spec(&self, other: &Value) -> bool { veq(vview(*self), vview(*other)) }
}
//@assume objects.eq
//@verify context.add_variable
//@verify context.add_variable_from_value
//@verify context.get_variable
//@verify context.has_function
//@verify context.get_function
//@verify context.new_inner_scope
//@include prelude/registry_spec.rs
//@verify context.default
//@include prelude/tail_std.rs
