//@include prelude/head.rs
//@include prelude/verus_open.rs
//@include prelude/chrono.rs
//@include prelude/types.rs
//@include prelude/ax.rs
//@include prelude/spec.rs
//@include prelude/ctx.rs
//@include prelude/env_context.rs
broadcast use {vstd::std_specs::hash::group_hash_axioms, ax::axiom_string_ext, ax::axiom_string_into_string, ax::axiom_refstring_into_string, ax::axiom_value_into_value};
//@verify context.add_variable
//@verify context.add_variable_from_value
//@verify context.get_variable
//@verify context.has_function
//@verify context.get_function
//@verify context.new_inner_scope
//@include prelude/tail_std.rs
