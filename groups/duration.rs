//@include prelude/head.rs
//@include prelude/verus_open.rs
//@include prelude/chrono.rs
//@include prelude/dur_spec.rs
//@include prelude/env_duration.rs
//@verify duration.format_float
//@verify duration.format_int
//@verify duration.format_duration
//@extras
} // verus!
fn main() {}
