//@include prelude/head.rs
//@include prelude/verus_open.rs
//@include prelude/chrono.rs
//@include prelude/types.rs
//@include prelude/ax.rs
//@include prelude/json_env.rs
use chrono::Duration;
//@item interpreter/src/json.rs :: enum ConvertToJsonError
broadcast use {vstd::std_specs::hash::group_hash_axioms, ax::axiom_string_ext};
//@verify json.json
//@include prelude/tail_std.rs
