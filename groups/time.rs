//@include prelude/head.rs
//@include prelude/verus_open.rs
//@include prelude/chrono.rs
//@include prelude/types.rs
//@include prelude/ax.rs
//@include prelude/spec.rs
//@include prelude/ctx.rs
//@include prelude/ev.rs
//@include prelude/env_conv.rs
//@item interpreter/src/magic.rs :: struct This
use chrono_fields::*;
impl FromSpecImpl<i32> for Value { open spec fn obeys_from_spec() -> bool { true } open spec fn from_spec(v: i32) -> Value { Value::Int(v as i64) } }
//@verify magic.from_i32_for_value
broadcast use chrono_fields::axiom_first_of_month;
//@verify time.timestamp_year
//@verify time.timestamp_month
//@verify time.timestamp_year_day
//@verify time.timestamp_month_day
//@verify time.timestamp_date
//@verify time.timestamp_weekday
//@verify time.timestamp_hours
//@verify time.timestamp_minutes
//@verify time.timestamp_seconds
//@verify time.timestamp_millis
//@include prelude/tail_std.rs
