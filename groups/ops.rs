//@include prelude/head.rs
//@include prelude/verus_open.rs
//@include prelude/chrono.rs
//@include prelude/types.rs
//@include prelude/ax.rs
//@include prelude/spec.rs
//@include prelude/ctx.rs
//@include prelude/ev.rs
//@include prelude/lemmas_arith.rs
//@include prelude/env_conv.rs
//@include prelude/env_opspec.rs
//@include prelude/env_cmp.rs
// eq / partial_cmp are *verified* in this group: no std-level spec is attached here (their contracts are on the fns)
impl PartialEqSpecImpl for Value {
    open spec fn obeys_eq_spec() -> bool { false }
    open spec fn eq_spec(&self, other: &Value) -> bool { veq(vview(*self), vview(*other)) }
}
impl PartialEqSpecImpl for Map {
    open spec fn obeys_eq_spec() -> bool { false }
    open spec fn eq_spec(&self, other: &Map) -> bool { veq(SVal::Map(amap(self.map@)), SVal::Map(amap(other.map@))) }
}
impl PartialOrdSpecImpl for Value {
    open spec fn obeys_partial_cmp_spec() -> bool { false }
    open spec fn partial_cmp_spec(&self, other: &Value) -> Option<Ordering> { vcmp(vview(*self), vview(*other)) }
}
broadcast use {vstd::std_specs::hash::group_hash_axioms, ax::axiom_string_ext, ax::axiom_i64_try_from_u64};
//@assume objects.cmp_int_float
//@verify objects.map_eq
//@verify objects.eq
//@verify objects.partial_cmp
//@verify objects.to_bool
//@verify objects.map_get
//@verify objects.add
//@verify objects.sub
//@verify objects.mul
//@verify objects.div
//@verify objects.rem
//@include prelude/tail_std.rs
