//@include prelude/head.rs
//@include prelude/verus_open.rs
//@include prelude/chrono.rs
//@include prelude/types.rs
//@include prelude/ax.rs
//@include prelude/spec.rs
//@include prelude/ctx.rs
//@include prelude/ev.rs
//@include prelude/env_conv.rs
//@include prelude/env_opspec.rs
//@include prelude/env_interp.rs
impl PartialEqSpecImpl for Value {
    open spec fn obeys_eq_spec() -> bool { true }
    open spec fn eq_spec(&self, other: &Value) -> bool { veq(vview(*self), vview(*other)) }
}
impl PartialOrdSpecImpl for Value {
    open spec fn obeys_partial_cmp_spec() -> bool { true }
    open spec fn partial_cmp_spec(&self, other: &Value) -> Option<Ordering> { vcmp(vview(*self), vview(*other)) }
}
//@assume objects.add
//@assume objects.sub
//@assume objects.mul
//@assume objects.div
//@assume objects.rem
//@assume objects.eq
//@assume objects.partial_cmp
//@assume objects.to_bool
//@assume lib.function_error
//@assume objects.map_get
//@assume context.get_variable
//@assume context.get_function
//@assume context.has_function
//@assume context.new_inner_scope
//@assume context.add_variable
//@assume context.add_variable_from_value
broadcast use {vstd::std_specs::hash::group_hash_axioms, vstd::string::group_string_axioms, ax::axiom_strslice_ext, ax::axiom_string_ext,
    ax::axiom_refstring_into_string, ax::axiom_str_into_string, ax::axiom_value_into_value, ax::axiom_vec_len_bound};
//@verify objects.member
//@verify objects.resolve_all
//@verify objects.resolve
//@item interpreter/src/lib.rs :: struct Program [pub, pubfields]
//@verify lib.execute
//@include prelude/tail_std.rs
