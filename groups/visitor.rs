//@include prelude/head.rs
use std::num::ParseIntError;
//@include prelude/verus_open.rs
//@include prelude/chrono.rs
//@include prelude/types.rs
//@include prelude/visitor_env.rs
//@item antlr/src/parse.rs :: enum ParseSequenceError
//@item antlr/src/parse.rs :: enum ParseUnicodeError
//@include prelude/lit_spec.rs
//@include prelude/lit_env.rs
//@include prelude/lit_lemmas.rs
//@include prelude/visitor_lit_env.rs
//@include prelude/parse_spec.rs
//@include prelude/visitor_num_env.rs
//@include prelude/chain_spec.rs
//@item antlr/src/parser.rs :: struct LogicManager
//@include prelude/operators_spec.rs
//@include prelude/visitor_bin_env.rs
//@assume parser.expr
//@assume parser.add_term
//@verify visitor.not
//@verify visitor.negate
//@verify visitor.string
//@verify visitor.bytes
//@verify visitor.int
//@verify visitor.uint
//@verify visitor.double
//@verify visitor.relation
//@verify visitor.calc
//@verify visitor.expr
//@verify visitor.new_logic_manager
//@verify visitor.cond_or
//@verify visitor.cond_and
//@verify visitor.select
//@verify visitor.index
//@include prelude/tail_std.rs
