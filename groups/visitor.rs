//@include prelude/head.rs
//@include prelude/verus_open.rs
//@include prelude/chrono.rs
//@include prelude/types.rs
//@include prelude/visitor_env.rs
broadcast use vstd::string::group_string_axioms;
//@verify visitor.not
//@verify visitor.negate
//@include prelude/tail_std.rs
