//@include prelude/head.rs
use std::num::ParseIntError;
//@include prelude/verus_open.rs
//@item antlr/src/parse.rs :: enum ParseSequenceError
//@item antlr/src/parse.rs :: enum ParseUnicodeError
//@include prelude/lit_spec.rs
//@include prelude/lit_env.rs
//@include prelude/lit_lemmas.rs
// The clauses of this group state what C12 demands for the quoting forms the decoders get WRONG (known findings, see
// known_findings.json): they are expected to fail; every other clause lives in group `literals`, which must verify.
//@verify parse.parse_raw_string_open
//@verify parse.parse_quoted_string_open
//@extras
} // verus!
fn main() {}
