//@include prelude/head.rs
use std::collections::HashSet;
//@include prelude/verus_open.rs
//@item antlr/src/reference.rs :: enum Val
//@item antlr/src/ast/mod.rs :: enum Expr
//@item antlr/src/ast/mod.rs :: enum EntryExpr
//@item antlr/src/ast/mod.rs :: struct IdedExpr
//@item antlr/src/ast/mod.rs :: struct IdedEntryExpr
//@item antlr/src/ast/mod.rs :: struct CallExpr
//@item antlr/src/ast/mod.rs :: struct SelectExpr
//@item antlr/src/ast/mod.rs :: struct StructExpr
//@item antlr/src/ast/mod.rs :: struct MapExpr
//@item antlr/src/ast/mod.rs :: struct ListExpr
//@item antlr/src/ast/mod.rs :: struct StructFieldExpr
//@item antlr/src/ast/mod.rs :: struct MapEntryExpr
//@item antlr/src/ast/mod.rs :: struct ComprehensionExpr
//@include prelude/refs_spec.rs
pub mod ax {
    use super::*;
    pub uninterp spec fn mk_str(s: Seq<char>) -> &'static str;
    #[verifier::external_body]
    pub broadcast proof fn axiom_strslice_ext(a: &str)
        ensures mk_str(#[trigger] a@) == a
    {}
}
broadcast use {ax::axiom_strslice_ext, vstd::std_specs::hash::group_hash_axioms, vstd::string::group_string_axioms};
//@item antlr/src/references.rs :: struct ExpressionReferences [pub, pubfields]
//@verify references._references
//@verify references.references
pub type Expression = IdedExpr;
//@item interpreter/src/lib.rs :: struct Program [pub, pubfields]
//@verify lib.references
//@extras
} // verus!
fn main() {}
