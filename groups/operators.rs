//@include prelude/head.rs
//@include prelude/verus_open.rs
pub mod operators_consts {
//@consts antlr/src/ast/operators.rs
}
use operators_consts::*;
//@item antlr/src/ast/operators.rs :: const OPERATORS
//@include prelude/operators_spec.rs
#[verifier::external_body] pub fn __str_eq(a: &str, b: &str) -> (r: bool) ensures r == (a@ == b@) { a == b }
broadcast use {vstd::string::group_string_axioms};
//@verify operators.find_operator
} // verus!
fn main() {}
