//@include prelude/head.rs
use std::num::ParseIntError;
//@include prelude/verus_open.rs
//@item antlr/src/parse.rs :: enum ParseSequenceError
//@item antlr/src/parse.rs :: enum ParseUnicodeError
//@include prelude/lit_spec.rs
//@include prelude/lit_env.rs
//@include prelude/lit_lemmas.rs
//@verify parse.parse_unicode_hex
//@verify parse.parse_unicode_oct
//@verify parse.parse_raw_string
//@verify parse.parse_quoted_string
//@verify parse.parse_string
//@verify parse.parse_bytes
//@extras
} // verus!
fn main() {}
