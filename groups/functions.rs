//@include prelude/head.rs
//@include prelude/verus_open.rs
//@include prelude/chrono.rs
//@include prelude/types.rs
//@include prelude/ax.rs
//@include prelude/spec.rs
//@include prelude/ctx.rs
//@include prelude/ev.rs
//@include prelude/env_conv.rs
//@item interpreter/src/magic.rs :: struct This
impl PartialEqSpecImpl for Value {
    open spec fn obeys_eq_spec() -> bool { true }
    open spec fn eq_spec(&self, other: &Value) -> bool { veq(vview(*self), vview(*other)) }
}
impl PartialOrdSpecImpl for Value {
    open spec fn obeys_partial_cmp_spec() -> bool { true }
    open spec fn partial_cmp_spec(&self, other: &Value) -> Option<Ordering> { vcmp(vview(*self), vview(*other)) }
}
//@assume objects.eq
//@assume objects.partial_cmp
//@assume objects.map_get
#[verifier::external_body]
pub fn __str_contains(hay: &str, needle: &str) -> (r: bool) ensures r == str_contains(hay@, needle@) { hay.contains(needle) }
/// `haystack.windows(n).any(|w| w == needle)` (R6 wrapper): `windows` PANICS for a zero window size (std precondition)
pub uninterp spec fn bytes_contains(hay: Seq<u8>, needle: Seq<u8>) -> bool;
#[verifier::external_body]
pub fn __bytes_windows_any(hay: &Arc<Vec<u8>>, needle: &[u8]) -> (r: bool)
    requires needle@.len() > 0,
    ensures r == bytes_contains(hay@, needle@)
{ unimplemented!() }
/// `haystack.windows(n).any(|w| w == needle)` for any window size expression: `windows(0)` PANICS
#[verifier::external_body]
pub fn __bytes_windows_any_n(hay: &Arc<Vec<u8>>, n: usize, needle: &[u8]) -> (r: bool)
    requires n > 0,
    ensures n == needle@.len() ==> r == bytes_contains(hay@, needle@)
{ unimplemented!() }
pub assume_specification<T: std::cmp::PartialEq> [<[T]>::contains] (s: &[T], x: &T) -> (r: bool)
    ensures <T as PartialEqSpec>::obeys_eq_spec() ==> r == exists|i: int| 0 <= i < s@.len() && (#[trigger] s@[i]).eq_spec(x);
broadcast use {vstd::std_specs::hash::group_hash_axioms, ax::axiom_string_ext};
//@verify functions.contains
// ---- size(): element / entry / byte count ----
/// `ftx.error(format!(..{:?}.., value))` (R6 wrapper): the Debug text of a value is out of reach; the result is a FunctionError (lib.function_error)
#[verifier::external_body]
pub fn __ftx_error_dbg(ftx: &FunctionContext, v: &Value) -> (r: ExecutionError) ensures r is FunctionError { unimplemented!() }
//@verify functions.size
// ---- duration(): nom's parse_duration is out of reach; its result is the uninterpreted pd_spec (remaining text, nanoseconds) ----
pub uninterp spec fn pd_spec(i: Seq<char>) -> Option<(Seq<char>, int)>;
#[verifier::external_body] pub struct NomErr { _p: u8 }
#[verifier::external_body] pub fn __nom_err_text(e: &NomErr) -> String { unimplemented!() }
pub mod duration {
    use super::*;
    /// interpreter/src/duration.rs parse_duration (nom combinators + f64): ASSUMED to be a function of its input text
    #[verifier::external_body]
    pub fn parse_duration(i: &str) -> (r: Result<(&str, chrono::Duration), NomErr>)
        ensures match pd_spec(i@) { Some(p) => r matches Ok(q) && q.0@ == p.0 && chrono::dur_ns(q.1) == p.1, None => r is Err }
    { unimplemented!() }
}
//@assume lib.function_error
//@verify functions._duration
// ---- min() / max() ----
//@item interpreter/src/magic.rs :: struct Arguments
//@include prelude/minmax_spec.rs
pub assume_specification<'a, T: Clone, E>[Result::<&'a T, E>::cloned](r: Result<&'a T, E>) -> (res: Result<T, E>)
    ensures match r { Ok(v) => res is Ok && res->Ok_0 == *v, Err(e) => res == Err::<T, E>(e) };
//@verify functions.max
//@verify functions.min
//@include prelude/tail_std.rs
