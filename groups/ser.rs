//@include prelude/head.rs
//@include prelude/verus_open.rs
//@include prelude/chrono.rs
//@include prelude/parse_spec.rs
//@include prelude/chrono_text.rs
//@include prelude/types.rs
//@include prelude/ax.rs
pub mod ser {
use super::*;
use vstd::std_specs::hash::*;
use chrono::FixedOffset;
//@item interpreter/src/ser.rs :: struct Serializer
//@item interpreter/src/ser.rs :: struct KeySerializer
//@item interpreter/src/ser.rs :: struct Duration
//@item interpreter/src/ser.rs :: impl Duration
//@item interpreter/src/ser.rs :: struct Timestamp
//@item interpreter/src/ser.rs :: impl Timestamp
//@item interpreter/src/ser.rs :: enum SerializationError
//@item interpreter/src/ser.rs :: type Result
//@item interpreter/src/ser.rs :: struct SerializeVec
//@item interpreter/src/ser.rs :: struct SerializeTupleVariant
//@item interpreter/src/ser.rs :: struct SerializeMap
//@item interpreter/src/ser.rs :: struct SerializeStructVariant
//@item interpreter/src/ser.rs :: struct SerializeTimestamp
//@item interpreter/src/ser.rs :: enum TimeSerializer
//@include prelude/ser_env.rs
broadcast use {vstd::std_specs::hash::group_hash_axioms, ax::axiom_string_ext, ax::axiom_strslice_ext, vstd::string::group_string_axioms};
//@verify ser.value.serialize_bool
//@verify ser.value.serialize_i8
//@verify ser.value.serialize_i16
//@verify ser.value.serialize_i32
//@verify ser.value.serialize_i64
//@verify ser.value.serialize_u8
//@verify ser.value.serialize_u16
//@verify ser.value.serialize_u32
//@verify ser.value.serialize_u64
//@verify ser.value.serialize_f32
//@verify ser.value.serialize_f64
//@verify ser.value.serialize_char
//@verify ser.value.serialize_str
//@verify ser.value.serialize_bytes
//@verify ser.value.serialize_none
//@verify ser.value.serialize_unit
//@verify ser.value.serialize_unit_struct
//@verify ser.value.serialize_some
//@verify ser.value.serialize_unit_variant
//@verify ser.value.serialize_newtype_struct
//@verify ser.value.serialize_newtype_variant
//@verify ser.value.serialize_seq
//@verify ser.value.serialize_tuple
//@verify ser.value.serialize_tuple_struct
//@verify ser.value.serialize_tuple_variant
//@verify ser.value.serialize_map
//@verify ser.value.serialize_struct
//@verify ser.value.serialize_struct_variant
//@verify-if-present ser.value.serialize_i128
//@verify-if-present ser.value.serialize_u128
//@verify ser.seq.serialize_element
//@verify ser.seq.end
//@verify ser.tuple.serialize_element
//@verify ser.tuple.end
//@verify ser.tuple_struct.serialize_field
//@verify ser.tuple_struct.end
//@verify ser.tuple_variant.serialize_field
//@verify ser.tuple_variant.end
//@verify ser.map.serialize_key
//@verify ser.map.serialize_value
//@verify ser.map.end
//@verify ser.struct.serialize_field
//@verify ser.struct.end
//@verify ser.struct_variant.serialize_field
//@verify ser.struct_variant.end
//@verify ser.to_value
//@verify ser.key.serialize_bool
//@verify ser.key.serialize_i8
//@verify ser.key.serialize_i16
//@verify ser.key.serialize_i32
//@verify ser.key.serialize_i64
//@verify ser.key.serialize_u8
//@verify ser.key.serialize_u16
//@verify ser.key.serialize_u32
//@verify ser.key.serialize_u64
//@verify ser.key.serialize_f32
//@verify ser.key.serialize_f64
//@verify ser.key.serialize_bytes
//@verify ser.key.serialize_none
//@verify ser.key.serialize_unit
//@verify ser.key.serialize_unit_struct
//@verify ser.key.serialize_newtype_variant
//@verify ser.key.serialize_seq
//@verify ser.key.serialize_tuple
//@verify ser.key.serialize_tuple_struct
//@verify ser.key.serialize_tuple_variant
//@verify ser.key.serialize_map
//@verify ser.key.serialize_struct
//@verify ser.key.serialize_struct_variant
//@verify ser.key.serialize_char
//@verify ser.key.serialize_str
//@verify ser.key.serialize_unit_variant
//@verify ser.key.serialize_some
//@verify ser.key.serialize_newtype_struct
//@verify-if-present ser.key.serialize_i128
//@verify-if-present ser.key.serialize_u128
//@verify ser.time.serialize_struct
//@verify ser.time.serialize_str
//@verify ser.time.serialize_bool
//@verify ser.time.serialize_i8
//@verify ser.time.serialize_i16
//@verify ser.time.serialize_i32
//@verify ser.time.serialize_i64
//@verify ser.time.serialize_u8
//@verify ser.time.serialize_u16
//@verify ser.time.serialize_u32
//@verify ser.time.serialize_u64
//@verify ser.time.serialize_f32
//@verify ser.time.serialize_f64
//@verify ser.time.serialize_char
//@verify ser.time.serialize_bytes
//@verify ser.time.serialize_none
//@verify ser.time.serialize_some
//@verify ser.time.serialize_unit
//@verify ser.time.serialize_unit_struct
//@verify ser.time.serialize_unit_variant
//@verify ser.time.serialize_newtype_struct
//@verify ser.time.serialize_newtype_variant
//@verify ser.time.serialize_seq
//@verify ser.time.serialize_tuple
//@verify ser.time.serialize_tuple_struct
//@verify ser.time.serialize_tuple_variant
//@verify ser.time.serialize_map
//@verify ser.time.serialize_struct_variant
//@verify ser.time.unexpected
//@verify ser.timestamp.serialize_field
//@verify ser.timestamp.end
//@complete interpreter/src/ser.rs :: impl TimeSerializer
//@complete interpreter/src/ser.rs :: impl ser::SerializeMap for SerializeMap
//@complete interpreter/src/ser.rs :: impl ser::SerializeSeq for SerializeVec
//@complete interpreter/src/ser.rs :: impl ser::SerializeStruct for SerializeMap
//@complete interpreter/src/ser.rs :: impl ser::SerializeStruct for SerializeTimestamp
//@complete interpreter/src/ser.rs :: impl ser::SerializeStructVariant for SerializeStructVariant
//@complete interpreter/src/ser.rs :: impl ser::SerializeTuple for SerializeVec
//@complete interpreter/src/ser.rs :: impl ser::SerializeTupleStruct for SerializeVec
//@complete interpreter/src/ser.rs :: impl ser::SerializeTupleVariant for SerializeTupleVariant
//@complete interpreter/src/ser.rs :: impl ser::Serializer for KeySerializer
//@complete interpreter/src/ser.rs :: impl ser::Serializer for Serializer
//@complete interpreter/src/ser.rs :: impl ser::Serializer for TimeSerializer
} // mod ser
//@include prelude/tail_std.rs
