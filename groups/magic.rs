//@include prelude/head.rs
//@include prelude/verus_open.rs
//@include prelude/chrono.rs
//@include prelude/types.rs
//@include prelude/ax.rs
//@include prelude/spec.rs
//@include prelude/ctx.rs
//@include prelude/ev.rs
//@include prelude/env_magic.rs
/// Debug text of an expression on an error path (core::fmt): R6 wrapper
#[verifier::external_body] pub fn __debug_expr(e: &Expr) -> String { unimplemented!() }
/// relation between the value an argument resolved to and what `This<T>` returns for it (global call style)
pub open spec fn this_of_arg<T: FromValue>(r: ResolveResult, res: Result<This<T>, ExecutionError>) -> bool {
    match r {
        Ok(v) => exists|x: Result<T, ExecutionError>| #[trigger] T::fv_post(v, x) && res == this_lift(x),
        Err(_) => res == Err::<This<T>, ExecutionError>(ExecutionError::MissingArgumentOrTarget),
    }
}
//@assume objects.resolve
//@assume lib.invalid_argument_count
//@assume lib.missing_argument_or_target
//@verify functions.ctx_new
//@verify functions.ctx_resolve
//@verify resolvers.expression
//@verify resolvers.argument
//@verify resolvers.all_arguments
//@verify magic.from_value_for_value
//@verify-macro magic.conv_from_value
//@verify-macro magic.conv_from_value_opt
//@verify magic.arg_expr_from_context
//@verify magic.arg_value_from_context
//@verify magic.this_from_context
//@verify magic.identifier_from_context
//@verify magic.arguments_from_context
//@verify magic.value_from_context
//@verify magic.expression_from_context
//@include prelude/tail_std.rs
