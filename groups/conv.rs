//@include prelude/head.rs
//@include prelude/verus_open.rs
//@include prelude/chrono.rs
//@include prelude/parse_spec.rs
//@include prelude/chrono_text.rs
//@include prelude/types.rs
//@include prelude/ax.rs
//@include prelude/spec.rs
//@include prelude/ctx.rs
//@item interpreter/src/magic.rs :: struct This
pub uninterp spec fn str_of_bytes(b: Seq<u8>) -> Seq<char>;
//@include prelude/conv_env.rs
pub trait AsF64 { spec fn as_f64(self) -> f64; }
impl AsF64 for i64 { open spec fn as_f64(self) -> f64 { i64_to_f64(self) } }
impl AsF64 for u64 { open spec fn as_f64(self) -> f64 { u64_to_f64(self) } }
#[verifier::external_body] pub fn __num_as_f64<T: AsF64>(v: T) -> (r: f64) ensures r == v.as_f64() { unimplemented!() }
broadcast use {ax::axiom_i64_try_from_u64, ax::axiom_string_ext, ax::axiom_strslice_ext, vstd::string::group_string_axioms};
//@verify functions.string
//@verify functions.bytes
//@verify functions.double
//@verify functions.uint
//@verify functions.int
//@verify functions.timestamp
//@verify functions.starts_with
//@verify functions.ends_with
// ---- composition lemmas over the contracts above (property statements C13 / C16: "string() followed by the inverse conversion
// returns the original", "timestamp(string(t)) == t"); they use only the contracts, never the bodies ----
pub fn roundtrip_int(ftx: &FunctionContext, n: i64) -> (r: ResolveResult)
    ensures r == Ok::<Value, ExecutionError>(Value::Int(n))
{
    proof { axiom_num_text(); }
    let s = string(ftx, This(Value::Int(n)))?;
    int(ftx, This(s))
}
pub fn roundtrip_uint(ftx: &FunctionContext, n: u64) -> (r: ResolveResult)
    ensures r == Ok::<Value, ExecutionError>(Value::UInt(n))
{
    proof { axiom_num_text(); }
    let s = string(ftx, This(Value::UInt(n)))?;
    uint(ftx, This(s))
}
pub fn roundtrip_double(ftx: &FunctionContext, f: f64) -> (r: ResolveResult)
    requires !f64_is_nan(f)
    ensures r == Ok::<Value, ExecutionError>(Value::Float(f))
{
    proof { axiom_num_text(); }
    let s = string(ftx, This(Value::Float(f)))?;
    double(ftx, This(s))
}
pub fn roundtrip_timestamp(ftx: &FunctionContext, t: chrono::DateTime<chrono::FixedOffset>) -> (r: ResolveResult)
    requires chrono_text::rfc3339_exact(t)
    ensures r == Ok::<Value, ExecutionError>(Value::Timestamp(t))
{
    proof { chrono_text::axiom_chrono_text(); }
    let s = string(ftx, This(Value::Timestamp(t)))?;
    match s { Value::String(text) => timestamp(text), _ => vstd::pervasive::unreached() }
}
//@include prelude/tail_std.rs
