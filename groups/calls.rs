//@include prelude/head.rs
//@include prelude/verus_open.rs
//@include prelude/chrono.rs
//@include prelude/types.rs
//@include prelude/ax.rs
//@include prelude/macros_env.rs
//@include prelude/calls_spec.rs
//@include prelude/calls_expands.rs
#[verifier::external_body] pub struct CommonToken { x: u8 }
pub struct ParserHelper { pub next_id: u64 }
pub struct Parser { pub helper: ParserHelper, pub errors: Vec<ParseError> }
impl Parser {
    /// parser.rs report_parse_error: records the error (so compilation fails) and returns a placeholder node
    #[verifier::external_body]
    fn report_parse_error(&mut self, token: Option<&CommonToken>, e: ParseError) -> (r: IdedExpr)
        ensures final(self).errors@.len() == old(self).errors@.len() + 1
    { unimplemented!() }
}
pub mod macros {
    use super::*;
    broadcast use {ax::axiom_strslice_ext, ax::axiom_string_ext, vstd::string::group_string_axioms};
//@assume macros.has
//@assume macros.exists
//@assume macros.all
//@assume macros.exists_one
//@assume macros.map
//@assume macros.filter
//@verify macros.find_expander
impl MacroExpander {
    /// the call through the function pointer: dispatch on the name it stands for; each expander's guard is checked here
    pub fn call(self, helper: &mut MacroExprHelper, target: Option<IdedExpr>, args: Vec<IdedExpr>) -> (r: Result<IdedExpr, ParseError>)
        requires kind_pre(self, target, args@)
        ensures expands(self, target, args@, r)
    {
        match self {
            MacroExpander::Has => has_macro_expander(helper, target, args),
            MacroExpander::Exists => exists_macro_expander(helper, target, args),
            MacroExpander::All => all_macro_expander(helper, target, args),
            MacroExpander::ExistsOne => exists_one_macro_expander(helper, target, args),
            MacroExpander::Map => map_macro_expander(helper, target, args),
            MacroExpander::Filter => filter_macro_expander(helper, target, args),
        }
    }
}
}
//@verify calls.global_call_or_macro
//@verify calls.receiver_call_or_macro
//@include prelude/tail_std.rs
