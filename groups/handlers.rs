//@include prelude/head.rs
//@include prelude/verus_open.rs
//@include prelude/chrono.rs
//@include prelude/types.rs
//@include prelude/ax.rs
//@include prelude/spec.rs
//@include prelude/ctx.rs
// ---- the handler adapters of interpreter/src/macros.rs (impl_handler!, arities 0-9, with and without FunctionContext) ----
// They are generic in the parameter types.  Here the crate's traits are declared with FUNCTIONAL ghost items: an extractor is a
// deterministic function of the function context (result and context left behind), a result conversion a function of the value.
// (The concrete extractors are verified against their own, stronger contracts in group magic; determinism of argument
// evaluation is the trusted-base assumption "host functions are deterministic".)
pub trait FromContext: Sized {
    spec fn fc_spec<'c>(ctx: FunctionContext<'c>) -> (Result<Self, ExecutionError>, FunctionContext<'c>);
    fn from_context<'c>(ctx: &mut FunctionContext<'c>) -> (r: Result<Self, ExecutionError>)
        ensures (r, *final(ctx)) == Self::fc_spec(*old(ctx));
}
pub trait IntoResolveResult: Sized {
    spec fn irr_spec(self) -> ResolveResult;
    fn into_resolve_result(self) -> (r: ResolveResult)
        ensures r == self.irr_spec();
}
//@verify-handlers impl_handler in interpreter/src/macros.rs invoked in interpreter/src/magic.rs props C20 C07
//@include prelude/tail_std.rs
