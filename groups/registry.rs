//@include prelude/head.rs
//@include prelude/verus_open.rs
//@include prelude/chrono.rs
//@include prelude/types.rs
//@include prelude/ax.rs
//@include prelude/ctx_types.rs
//@include prelude/registry_env.rs
broadcast use {vstd::std_specs::hash::group_hash_axioms, ax::axiom_string_ext};
//@verify magic.registry_add
//@verify magic.registry_get
//@verify magic.registry_has
//@complete interpreter/src/magic.rs :: impl FunctionRegistry
//@include prelude/tail_std.rs
