//! property C08: 64-bit integer arithmetic is exact or reports overflow
use cel_interpreter::{ExecutionError, Value};
use std::mem::forget;
use crate::sym::{any, assume};

fn is_overflow(r: &Result<Value, ExecutionError>, op: &'static str, a: &Value, b: &Value) -> bool {
    match r {
        Err(ExecutionError::IntegerOverflow(o, l, rr)) => *o == op && l == a && rr == b,
        _ => false,
    }
}

macro_rules! exact_or_overflow {
    ($name:ident, $var:ident, $t:ty, $wide:ty, $op:tt, $opname:expr) => {
        #[cfg_attr(kani, kani::proof)]
        #[cfg_attr(kani, kani::unwind(6))]
        pub fn $name() {
            let a: $t = any();
            let b: $t = any();
            let r = Value::$var(a) $op Value::$var(b);
            let exact: $wide = (a as $wide) $op (b as $wide);
            if exact >= <$t>::MIN as $wide && exact <= <$t>::MAX as $wide {
                assert!(matches!(r, Ok(Value::$var(v)) if v as $wide == exact));
            } else {
                assert!(is_overflow(&r, $opname, &Value::$var(a), &Value::$var(b)));
            }
            forget(r);
        }
    };
}
exact_or_overflow!(c08_add_int, Int, i64, i128, +, "add");
exact_or_overflow!(c08_sub_int, Int, i64, i128, -, "sub");
exact_or_overflow!(c08_mul_int, Int, i64, i128, *, "mul");
exact_or_overflow!(c08_add_uint, UInt, u64, i128, +, "add");
exact_or_overflow!(c08_sub_uint, UInt, u64, i128, -, "sub");
exact_or_overflow!(c08_mul_uint, UInt, u64, u128, *, "mul");

/// division / remainder: the guard structure (zero divisor, MIN / -1) is decided here over the full
/// domain; the quotient itself is the machine instruction (value equality of two 64-bit dividers is
/// out of CBMC's reach) and is pinned by the Verus contract against `tdiv`/`trem`.
#[cfg_attr(kani, kani::proof)]
#[cfg_attr(kani, kani::unwind(6))]
pub fn c08_div_int_guards() {
    let a: i64 = any();
    let b: i64 = any();
    let r = Value::Int(a) / Value::Int(b);
    if b == 0 {
        assert!(matches!(&r, Err(ExecutionError::DivisionByZero(Value::Int(x))) if *x == a));
    } else if a == i64::MIN && b == -1 {
        assert!(is_overflow(&r, "div", &Value::Int(a), &Value::Int(b)));
    } else {
        assert!(matches!(r, Ok(Value::Int(_))));
    }
    forget(r);
}
#[cfg_attr(kani, kani::proof)]
#[cfg_attr(kani, kani::unwind(6))]
pub fn c08_rem_int_guards() {
    let a: i64 = any();
    let b: i64 = any();
    let r = Value::Int(a) % Value::Int(b);
    if b == 0 {
        assert!(matches!(&r, Err(ExecutionError::RemainderByZero(Value::Int(x))) if *x == a));
    } else if a == i64::MIN && b == -1 {
        assert!(is_overflow(&r, "rem", &Value::Int(a), &Value::Int(b)));
    } else {
        assert!(matches!(r, Ok(Value::Int(_))));
    }
    forget(r);
}
#[cfg_attr(kani, kani::proof)]
#[cfg_attr(kani, kani::unwind(6))]
pub fn c08_divrem_uint_guards() {
    let a: u64 = any();
    let b: u64 = any();
    let q = Value::UInt(a) / Value::UInt(b);
    let r = Value::UInt(a) % Value::UInt(b);
    if b == 0 {
        assert!(matches!(&q, Err(ExecutionError::DivisionByZero(Value::UInt(x))) if *x == a));
        assert!(matches!(&r, Err(ExecutionError::RemainderByZero(Value::UInt(x))) if *x == a));
    } else {
        assert!(matches!(q, Ok(Value::UInt(_))));
        assert!(matches!(r, Ok(Value::UInt(_))));
    }
    forget(q);
    forget(r);
}

/// mixing int, uint and double operands in arithmetic is an error, not a coercion
macro_rules! mixed_is_error {
    ($name:ident, $l:ident, $r:ident) => {
        #[cfg_attr(kani, kani::proof)]
        #[cfg_attr(kani, kani::unwind(6))]
        pub fn $name() {
            let i: i64 = any();
            let u: u64 = any();
            let f: f64 = any();
            let res = $l(i, u, f) + $r(i, u, f);
            assert!(matches!(res, Err(ExecutionError::UnsupportedBinaryOperator("add", _, _))));
            forget(res);
            let res = $l(i, u, f) - $r(i, u, f);
            assert!(matches!(res, Err(ExecutionError::UnsupportedBinaryOperator("sub", _, _))));
            forget(res);
            let res = $l(i, u, f) * $r(i, u, f);
            assert!(matches!(res, Err(ExecutionError::UnsupportedBinaryOperator("mul", _, _))));
            forget(res);
            let res = $l(i, u, f) / $r(i, u, f);
            assert!(matches!(res, Err(ExecutionError::UnsupportedBinaryOperator("div", _, _))));
            forget(res);
            let res = $l(i, u, f) % $r(i, u, f);
            assert!(matches!(res, Err(ExecutionError::UnsupportedBinaryOperator("rem", _, _))));
            forget(res);
        }
    };
}
fn vi(i: i64, _u: u64, _f: f64) -> Value { Value::Int(i) }
fn vu(_i: i64, u: u64, _f: f64) -> Value { Value::UInt(u) }
fn vf(_i: i64, _u: u64, f: f64) -> Value { Value::Float(f) }
mixed_is_error!(c08_mixed_int_uint, vi, vu);
mixed_is_error!(c08_mixed_uint_int, vu, vi);
mixed_is_error!(c08_mixed_int_float, vi, vf);
mixed_is_error!(c08_mixed_float_int, vf, vi);
mixed_is_error!(c08_mixed_uint_float, vu, vf);
mixed_is_error!(c08_mixed_float_uint, vf, vu);
