//! property C13: int(), uint(), double() return the mathematically corresponding value or an error
use crate::sym::{any, assume};
use cel_interpreter::extractors::This;
use cel_interpreter::{Context, ExecutionError, FunctionContext, Value};
use std::mem::forget;
use std::sync::Arc;

#[cfg(kani)]
pub fn fixed_random_state() -> std::collections::hash_map::RandomState {
    // HashMap::default() seeds itself from the OS; under Kani that is replaced by a fixed state
    unsafe { std::mem::transmute((0u64, 0u64)) }
}

/// `format!` on error paths (Debug text of a Value) dominates CBMC's cost; the message text is irrelevant to the contracts
#[cfg(kani)]
pub fn stub_format(_args: std::fmt::Arguments<'_>) -> String {
    String::new()
}

/// integral part of a finite double as (negative, magnitude) with magnitude saturated at 2^100; None for NaN / infinity.
/// Computed from the IEEE-754 bit pattern only.
pub fn trunc_parts(f: f64) -> Option<(bool, u128, bool)> {
    let bits = f.to_bits();
    let neg = (bits >> 63) != 0;
    let exp = ((bits >> 52) & 0x7ff) as i32;
    let frac = bits & ((1u64 << 52) - 1);
    if exp == 0x7ff {
        return None;
    }
    let (m, e) = if exp == 0 { (frac, -1074) } else { (frac | (1u64 << 52), exp - 1075) };
    let nonzero = m != 0;
    let t: u128 = if e >= 0 {
        if e > 40 { 1u128 << 100 } else { (m as u128) << (e as u32) }
    } else {
        let sh = (-e) as u32;
        if sh >= 64 { 0 } else { (m >> sh) as u128 }
    };
    Some((neg, t, nonzero))
}

fn call(f: fn(&FunctionContext, This<Value>) -> Result<Value, ExecutionError>, v: Value) -> Result<Value, ExecutionError> {
    let ctx = Context::empty();
    let ftx = FunctionContext::new(Arc::new(String::new()), None, &ctx, Vec::new());
    let r = f(&ftx, This(v));
    forget(ftx);
    forget(ctx);
    r
}

#[cfg_attr(kani, kani::proof)]
#[cfg_attr(kani, kani::unwind(6))]
#[cfg_attr(kani, kani::stub(std::collections::hash_map::RandomState::new, fixed_random_state))]
#[cfg_attr(kani, kani::stub(alloc::fmt::format, stub_format))]
pub fn c13_int_of_double() {
    let f: f64 = any();
    let r = call(cel_interpreter::functions::int, Value::Float(f));
    match trunc_parts(f) {
        None => assert!(r.is_err()),
        Some((neg, t, _)) => {
            let in_range = if neg { t <= (1u128 << 63) } else { t < (1u128 << 63) };
            if in_range {
                let want: i64 = if neg { (-(t as i128)) as i64 } else { t as i64 };
                assert!(matches!(r, Ok(Value::Int(x)) if x == want));
            } else {
                assert!(r.is_err());
            }
        }
    }
    forget(r);
}
#[cfg_attr(kani, kani::proof)]
#[cfg_attr(kani, kani::unwind(6))]
#[cfg_attr(kani, kani::stub(std::collections::hash_map::RandomState::new, fixed_random_state))]
#[cfg_attr(kani, kani::stub(alloc::fmt::format, stub_format))]
pub fn c13_uint_of_double() {
    let f: f64 = any();
    let r = call(cel_interpreter::functions::uint, Value::Float(f));
    match trunc_parts(f) {
        None => assert!(r.is_err()),
        Some((neg, t, nonzero)) => {
            if neg && t > 0 {
                assert!(r.is_err());
            } else if neg && nonzero {
                // -1 < f < 0: the statement admits both readings (error, or truncation to 0); never anything else
                assert!(r.is_err() || matches!(r, Ok(Value::UInt(0))));
            } else if t <= u64::MAX as u128 {
                assert!(matches!(r, Ok(Value::UInt(x)) if x as u128 == t));
            } else {
                assert!(r.is_err());
            }
        }
    }
    forget(r);
}
#[cfg_attr(kani, kani::proof)]
#[cfg_attr(kani, kani::unwind(6))]
#[cfg_attr(kani, kani::stub(std::collections::hash_map::RandomState::new, fixed_random_state))]
#[cfg_attr(kani, kani::stub(alloc::fmt::format, stub_format))]
pub fn c13_int_uint_cross() {
    let i: i64 = any();
    let u: u64 = any();
    let r = call(cel_interpreter::functions::int, Value::UInt(u));
    if u <= i64::MAX as u64 { assert!(matches!(r, Ok(Value::Int(x)) if x as u64 == u)); } else { assert!(r.is_err()); }
    forget(r);
    let r = call(cel_interpreter::functions::uint, Value::Int(i));
    if i >= 0 { assert!(matches!(r, Ok(Value::UInt(x)) if x == i as u64)); } else { assert!(r.is_err()); }
    forget(r);
    let r = call(cel_interpreter::functions::int, Value::Int(i));
    assert!(matches!(r, Ok(Value::Int(x)) if x == i));
    forget(r);
    let r = call(cel_interpreter::functions::uint, Value::UInt(u));
    assert!(matches!(r, Ok(Value::UInt(x)) if x == u));
    forget(r);
}
/// double(int) / double(uint): the nearest double (IEEE round-to-nearest-even `as` cast, stated assumption), never an error;
/// exactness where representable: converting back gives the same integer whenever |i| <= 2^53
#[cfg_attr(kani, kani::proof)]
#[cfg_attr(kani, kani::unwind(6))]
#[cfg_attr(kani, kani::stub(std::collections::hash_map::RandomState::new, fixed_random_state))]
#[cfg_attr(kani, kani::stub(alloc::fmt::format, stub_format))]
pub fn c13_double_of_int() {
    let i: i64 = any();
    let u: u64 = any();
    let r = call(cel_interpreter::functions::double, Value::Int(i));
    match &r {
        Ok(Value::Float(d)) => {
            assert!(crate::cmp::oracle_cmp(i as i128, *d).is_some());
            if i >= -(1i64 << 53) && i <= (1i64 << 53) { assert!(crate::cmp::oracle_cmp(i as i128, *d) == Some(std::cmp::Ordering::Equal)); }
        }
        _ => assert!(false),
    }
    forget(r);
    let r = call(cel_interpreter::functions::double, Value::UInt(u));
    match &r {
        Ok(Value::Float(d)) => {
            if u <= (1u64 << 53) { assert!(crate::cmp::oracle_cmp(u as i128, *d) == Some(std::cmp::Ordering::Equal)); }
        }
        _ => assert!(false),
    }
    forget(r);
    let f: f64 = any();
    let r = call(cel_interpreter::functions::double, Value::Float(f));
    assert!(matches!(r, Ok(Value::Float(x)) if x.to_bits() == f.to_bits()));
    forget(r);
}
/// conversions of a non-convertible receiver are errors, never panics
#[cfg_attr(kani, kani::proof)]
#[cfg_attr(kani, kani::unwind(6))]
#[cfg_attr(kani, kani::stub(std::collections::hash_map::RandomState::new, fixed_random_state))]
#[cfg_attr(kani, kani::stub(alloc::fmt::format, stub_format))]
pub fn c13_non_numeric_receiver_is_error() {
    let b: bool = any();
    let r = call(cel_interpreter::functions::int, Value::Bool(b));
    assert!(r.is_err());
    forget(r);
    let r = call(cel_interpreter::functions::uint, Value::Null);
    assert!(r.is_err());
    forget(r);
    let r = call(cel_interpreter::functions::double, Value::Bool(b));
    assert!(r.is_err());
    forget(r);
}
