// harnesses added below
