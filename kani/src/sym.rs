//! Symbolic inputs under Kani; concrete inputs (from a byte queue) when the same harness is
//! replayed on the natively compiled crates by the replay driver.
#[cfg(kani)]
pub fn any<T: kani::Arbitrary>() -> T {
    kani::any()
}
#[cfg(kani)]
pub fn assume(b: bool) {
    kani::assume(b)
}

#[cfg(not(kani))]
pub use native::*;
#[cfg(not(kani))]
mod native {
    use std::cell::RefCell;
    use std::collections::VecDeque;
    thread_local! { pub static QUEUE: RefCell<VecDeque<Vec<u8>>> = RefCell::new(VecDeque::new()); }
    pub fn load(vs: Vec<Vec<u8>>) {
        QUEUE.with(|q| *q.borrow_mut() = vs.into());
    }
    pub trait FromLe: Sized {
        fn from_le(b: &[u8]) -> Self;
    }
    macro_rules! le_int { ($($t:ty),*) => { $( impl FromLe for $t {
        fn from_le(b: &[u8]) -> Self { let mut a = [0u8; std::mem::size_of::<$t>()]; a.copy_from_slice(&b[..std::mem::size_of::<$t>()]); <$t>::from_le_bytes(a) } } )* } }
    le_int!(i8, i16, i32, i64, i128, u8, u16, u32, u64, u128, usize, isize, f32, f64);
    impl FromLe for bool {
        fn from_le(b: &[u8]) -> Self { b[0] != 0 }
    }
    impl FromLe for char {
        fn from_le(b: &[u8]) -> Self { char::from_u32(<u32 as FromLe>::from_le(b)).expect("REPLAY: invalid char") }
    }
    pub fn any<T: FromLe>() -> T {
        let v = QUEUE.with(|q| q.borrow_mut().pop_front()).expect("REPLAY: input queue exhausted");
        T::from_le(&v)
    }
    pub fn assume(b: bool) {
        if !b {
            panic!("REPLAY-ASSUME-VIOLATED");
        }
    }
}
