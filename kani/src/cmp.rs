//! property C09: equality and ordering among int, uint and double compare the numbers denoted
use crate::sym::{any, assume};
use cel_interpreter::Value;
use std::cmp::Ordering;
use std::cmp::Ordering::*;
use std::mem::forget;

/// Independent oracle: exact comparison of an integer (|i| < 2^64) with a double, by decoding the
/// IEEE-754 bit pattern f = (-1)^s * m * 2^e and comparing magnitudes in 128-bit integer arithmetic.
/// No integer is ever converted to floating point.
pub fn oracle_cmp(i: i128, f: f64) -> Option<Ordering> {
    if f != f {
        return None;
    }
    let bits = f.to_bits();
    let neg = (bits >> 63) != 0;
    let exp = ((bits >> 52) & 0x7ff) as i32;
    let frac = bits & ((1u64 << 52) - 1);
    if exp == 0x7ff {
        return Some(if neg { Greater } else { Less });
    }
    let (m, e) = if exp == 0 { (frac, -1074) } else { (frac | (1u64 << 52), exp - 1075) };
    if m == 0 {
        return Some(i.cmp(&0));
    }
    if neg && i >= 0 {
        return Some(Greater);
    }
    if !neg && i <= 0 {
        return Some(Less);
    }
    let a: u128 = i.unsigned_abs();
    let mag = if e >= 0 {
        // here m >= 2^52 (normal number), so m * 2^e >= 2^64 > a once e >= 12
        if e >= 12 { Less } else { a.cmp(&((m as u128) << (e as u32))) }
    } else {
        let sh = (-e) as u32;
        // m < 2^53: m / 2^sh < 1 <= a once sh >= 64
        if sh >= 64 { Greater } else { (a << sh).cmp(&(m as u128)) }
    };
    Some(if neg { mag.reverse() } else { mag })
}

fn check_pair(a: Value, b: Value, expect: Option<Ordering>) {
    let c = a.partial_cmp(&b);
    assert!(c == expect);
    let d = b.partial_cmp(&a);
    assert!(d == expect.map(Ordering::reverse));
    // a == b exactly when they compare Equal; != is its negation; NaN unequal to everything
    assert!((a == b) == (expect == Some(Equal)));
    assert!((b == a) == (expect == Some(Equal)));
    assert!((a != b) == !(a == b));
    forget(a);
    forget(b);
}

#[cfg_attr(kani, kani::proof)]
#[cfg_attr(kani, kani::unwind(6))]
pub fn c09_cmp_int_float_exact() {
    // one call: this is the contract `cmp_int_float(i, f) == icmpf(i, f)` that the Verus proof of eq / partial_cmp relies on
    // (the reversed order and the equality arms are derived from it there)
    let a: i64 = any();
    let f: f64 = any();
    let (x, y) = (Value::Int(a), Value::Float(f));
    assert!(x.partial_cmp(&y) == oracle_cmp(a as i128, f));
    forget(x);
    forget(y);
}
/// the three derived relations on the compiled code as well (thorough tier: four float comparisons per path)
#[cfg_attr(kani, kani::proof)]
#[cfg_attr(kani, kani::unwind(6))]
pub fn c09_cmp_int_float_coherent() {
    let a: i64 = any();
    let f: f64 = any();
    check_pair(Value::Int(a), Value::Float(f), oracle_cmp(a as i128, f));
}
#[cfg_attr(kani, kani::proof)]
#[cfg_attr(kani, kani::unwind(6))]
pub fn c09_cmp_uint_float_exact() {
    let a: u64 = any();
    let f: f64 = any();
    let (x, y) = (Value::UInt(a), Value::Float(f));
    assert!(x.partial_cmp(&y) == oracle_cmp(a as i128, f));
    forget(x);
    forget(y);
}
#[cfg_attr(kani, kani::proof)]
#[cfg_attr(kani, kani::unwind(6))]
pub fn c09_cmp_uint_float_coherent() {
    let a: u64 = any();
    let f: f64 = any();
    check_pair(Value::UInt(a), Value::Float(f), oracle_cmp(a as i128, f));
}
#[cfg_attr(kani, kani::proof)]
#[cfg_attr(kani, kani::unwind(6))]
pub fn c09_cmp_int_uint_exact() {
    let a: i64 = any();
    let b: u64 = any();
    check_pair(Value::Int(a), Value::UInt(b), Some((a as i128).cmp(&(b as i128))));
}
#[cfg_attr(kani, kani::proof)]
#[cfg_attr(kani, kani::unwind(6))]
pub fn c09_cmp_int_int() {
    let a: i64 = any();
    let b: i64 = any();
    check_pair(Value::Int(a), Value::Int(b), Some(a.cmp(&b)));
}
#[cfg_attr(kani, kani::proof)]
#[cfg_attr(kani, kani::unwind(6))]
pub fn c09_cmp_uint_uint() {
    let a: u64 = any();
    let b: u64 = any();
    check_pair(Value::UInt(a), Value::UInt(b), Some(a.cmp(&b)));
}
#[cfg_attr(kani, kani::proof)]
#[cfg_attr(kani, kani::unwind(6))]
pub fn c09_cmp_float_float_ieee() {
    let a: f64 = any();
    let b: f64 = any();
    let expect = if a != a || b != b { None } else if a < b { Some(Less) } else if a > b { Some(Greater) } else { Some(Equal) };
    check_pair(Value::Float(a), Value::Float(b), expect);
}
/// values of unrelated types are unequal and not orderable (scalar kinds; containers are the Verus contract)
#[cfg_attr(kani, kani::proof)]
#[cfg_attr(kani, kani::unwind(6))]
pub fn c09_unrelated_scalars() {
    let i: i64 = any();
    let u: u64 = any();
    let f: f64 = any();
    let b: bool = any();
    let nums = [Value::Int(i), Value::UInt(u), Value::Float(f)];
    let others = [Value::Bool(b), Value::Null];
    for n in nums.iter() {
        for o in others.iter() {
            assert!(n.partial_cmp(o).is_none() && o.partial_cmp(n).is_none());
            assert!(n != o && o != n);
        }
    }
    assert!(others[0].partial_cmp(&others[1]).is_none() && others[0] != others[1]);
    forget(nums);
    forget(others);
}

/// "lists ... are equal exactly when their elements are; NaN is unequal to everything": a list is equal to an alias of
/// itself exactly when its element is equal to itself (the shared-buffer case `x == x`, `l.all(e, e == e)`:
/// `Arc`'s `==` short-circuits on pointer identity when the element type claims `Eq`)
#[cfg_attr(kani, kani::proof)]
#[cfg_attr(kani, kani::unwind(4))]
pub fn c09_aliased_list_equal_iff_elements_equal() {
    let f: f64 = any();
    let a = Value::List(std::sync::Arc::new(vec![Value::Float(f)]));
    let b = a.clone(); // shares the buffer, as every evaluation of a variable does
    assert!((a == b) == (f == f));
    assert!((a != b) == (f != f));
    forget(a);
    forget(b);
}

/// min / max of two numbers of different kinds: the result is one of the two and bounds the other (exact comparison, C09)
fn check_minmax(a: Value, b: Value, expect: Option<Ordering>) {
    use cel_interpreter::extractors::Arguments;
    use std::sync::Arc;
    let mx = cel_interpreter::functions::max(Arguments(Arc::new(vec![a.clone(), b.clone()])));
    let mn = cel_interpreter::functions::min(Arguments(Arc::new(vec![a.clone(), b.clone()])));
    match expect {
        None => { assert!(mx.is_err()); assert!(mn.is_err()); }
        Some(o) => {
            // bit-exact identity of the returned value with one of the operands, chosen by the exact order
            let is = |r: &Value, x: &Value| match (r, x) {
                (Value::Int(p), Value::Int(q)) => p == q,
                (Value::UInt(p), Value::UInt(q)) => p == q,
                (Value::Float(p), Value::Float(q)) => p.to_bits() == q.to_bits(),
                _ => false,
            };
            match (&mx, &mn) {
                (Ok(hi), Ok(lo)) => {
                    match o {
                        Greater => { assert!(is(hi, &a)); assert!(is(lo, &b)); }
                        Less => { assert!(is(hi, &b)); assert!(is(lo, &a)); }
                        Equal => { assert!(is(hi, &a) || is(hi, &b)); assert!(is(lo, &a) || is(lo, &b)); }
                    }
                }
                _ => assert!(false),
            }
        }
    }
    forget(mx); forget(mn); forget(a); forget(b);
}
#[cfg_attr(kani, kani::proof)]
#[cfg_attr(kani, kani::unwind(6))]
pub fn c09_minmax_int_uint() {
    let i: i64 = any();
    let u: u64 = any();
    check_minmax(Value::Int(i), Value::UInt(u), Some((i as i128).cmp(&(u as i128))));
}
#[cfg_attr(kani, kani::proof)]
#[cfg_attr(kani, kani::unwind(6))]
pub fn c09_minmax_int_float() {
    let i: i64 = any();
    let f: f64 = any();
    check_minmax(Value::Int(i), Value::Float(f), oracle_cmp(i as i128, f));
}
#[cfg_attr(kani, kani::proof)]
#[cfg_attr(kani, kani::unwind(6))]
pub fn c09_minmax_uint_float() {
    let u: u64 = any();
    let f: f64 = any();
    check_minmax(Value::UInt(u), Value::Float(f), oracle_cmp(u as i128, f));
}
