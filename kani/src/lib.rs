//! Kani contract harnesses on the real cel-interpreter crate (path dependency on the repository).
//! Each harness has the form  `inputs = any(); assume(pre); r = real_fn(inputs); assert(post)` with the
//! postcondition computed independently of the function under test (wider type or explicit case
//! analysis).  The harnesses are loop-free over full-domain scalars: a SUCCESS under Kani is a
//! complete proof of that contract clause for the compiled code (overflow checks on).
//! The same functions are compiled natively into the replay driver, where `any()` reads the
//! counterexample bytes printed by Kani, so a failure is re-executed on the real code.
#![allow(unused)]
extern crate alloc;
pub mod sym;
pub mod arith;
pub mod cmp;
pub mod conv;
pub mod ser;
pub mod json;
