//! property C18: exporting a CEL value to JSON is total and faithful (one harness per value kind)
use crate::sym::{any, assume};
use cel_interpreter::Value;
use std::mem::forget;
use std::sync::Arc;

#[cfg(kani)]
use crate::conv::{fixed_random_state, stub_format};

#[cfg_attr(kani, kani::proof)]
#[cfg_attr(kani, kani::unwind(6))]
#[cfg_attr(kani, kani::stub(alloc::fmt::format, stub_format))]
pub fn c18_scalars() {
    let i: i64 = any();
    let u: u64 = any();
    let b: bool = any();
    let __v1 = Value::Int(i);
    let r = __v1.json();
    assert!(matches!(&r, Ok(j) if j.as_i64() == Some(i)));
    forget(r);
    let __v2 = Value::UInt(u);
    let r = __v2.json();
    assert!(matches!(&r, Ok(j) if j.as_u64() == Some(u)));
    forget(r);
    let __v3 = Value::Bool(b);
    let r = __v3.json();
    assert!(matches!(&r, Ok(serde_json::Value::Bool(x)) if *x == b));
    forget(r);
    let __v4 = Value::Null;
    let r = __v4.json();
    assert!(matches!(&r, Ok(serde_json::Value::Null)));
    forget(r);
}
/// finite doubles are exported as that number, non-finite doubles as null
#[cfg_attr(kani, kani::proof)]
#[cfg_attr(kani, kani::unwind(6))]
#[cfg_attr(kani, kani::stub(alloc::fmt::format, stub_format))]
pub fn c18_doubles() {
    let f: f64 = any();
    let __v5 = Value::Float(f);
    let r = __v5.json();
    if f.is_finite() {
        assert!(matches!(&r, Ok(j) if j.as_f64().map(|x| x.to_bits()) == Some(f.to_bits()) || (f == 0.0 && j.as_f64() == Some(0.0))));
    } else {
        assert!(matches!(&r, Ok(serde_json::Value::Null)));
    }
    forget(r);
}
/// function values are not representable: an error at top level, never a panic
#[cfg_attr(kani, kani::proof)]
#[cfg_attr(kani, kani::unwind(6))]
#[cfg_attr(kani, kani::stub(alloc::fmt::format, stub_format))]
pub fn c18_function_value_is_error() {
    let f = Value::Function(Arc::new(String::new()), None);
    let r = f.json();
    assert!(r.is_err());
    forget(r);
    forget(f);
}
/// ... and inside a list (the `?` on the nested failure)
#[cfg_attr(kani, kani::proof)]
#[cfg_attr(kani, kani::unwind(6))]
#[cfg_attr(kani, kani::stub(alloc::fmt::format, stub_format))]
pub fn c18_function_value_in_list_is_error() {
    let l = Value::List(Arc::new(vec![Value::Function(Arc::new(String::new()), None)]));
    let r = l.json();
    assert!(r.is_err());
    forget(r);
    forget(l);
}
/// lists become arrays of the exported elements, in order
#[cfg_attr(kani, kani::proof)]
#[cfg_attr(kani, kani::unwind(6))]
#[cfg_attr(kani, kani::stub(alloc::fmt::format, stub_format))]
pub fn c18_list_becomes_array() {
    let i: i64 = any();
    let b: bool = any();
    let l = Value::List(Arc::new(vec![Value::Int(i), Value::Bool(b), Value::Null]));
    let r = l.json();
    match &r {
        Ok(serde_json::Value::Array(a)) => {
            assert!(a.len() == 3);
            assert!(a[0].as_i64() == Some(i));
            assert!(a[1] == serde_json::Value::Bool(b));
            assert!(a[2].is_null());
        }
        _ => assert!(false),
    }
    forget(r);
    forget(l);
}
/// durations export their nanosecond count; a duration beyond 64-bit nanoseconds is an error, not a panic
#[cfg_attr(kani, kani::proof)]
#[cfg_attr(kani, kani::unwind(6))]
#[cfg_attr(kani, kani::stub(alloc::fmt::format, stub_format))]
pub fn c18_durations() {
    let s: i64 = any();
    let n: u32 = any();
    assume(n < 1_000_000_000);
    // chrono::Duration::new rejects values outside +-i64::MAX milliseconds
    let d = match chrono::Duration::new(s, n) {
        Some(d) => d,
        None => return,
    };
    let v = Value::Duration(d);
    let r = v.json();
    let exact = (s as i128) * 1_000_000_000 + n as i128;
    if exact >= i64::MIN as i128 && exact <= i64::MAX as i128 {
        assert!(matches!(&r, Ok(j) if j.as_i64() == Some(exact as i64)));
    } else {
        assert!(r.is_err());
    }
    forget(r);
    forget(v);
}
