//! property C18: exporting a CEL value to JSON is total and faithful (one harness per value kind)
use crate::sym::{any, assume};
use cel_interpreter::Value;
use std::mem::forget;
use std::sync::Arc;

#[cfg(kani)]
use crate::conv::{fixed_random_state, stub_format};

#[cfg_attr(kani, kani::proof)]
#[cfg_attr(kani, kani::unwind(6))]
#[cfg_attr(kani, kani::stub(alloc::fmt::format, stub_format))]
pub fn c18_scalars() {
    let i: i64 = any();
    let u: u64 = any();
    let b: bool = any();
    let __v1 = Value::Int(i);
    let r = __v1.json();
    assert!(matches!(&r, Ok(j) if j.as_i64() == Some(i)));
    forget(r);
    let __v2 = Value::UInt(u);
    let r = __v2.json();
    assert!(matches!(&r, Ok(j) if j.as_u64() == Some(u)));
    forget(r);
    let __v3 = Value::Bool(b);
    let r = __v3.json();
    assert!(matches!(&r, Ok(serde_json::Value::Bool(x)) if *x == b));
    forget(r);
    let __v4 = Value::Null;
    let r = __v4.json();
    assert!(matches!(&r, Ok(serde_json::Value::Null)));
    forget(r);
}
/// finite doubles are exported as that number, non-finite doubles as null
#[cfg_attr(kani, kani::proof)]
#[cfg_attr(kani, kani::unwind(6))]
#[cfg_attr(kani, kani::stub(alloc::fmt::format, stub_format))]
pub fn c18_doubles() {
    let f: f64 = any();
    let __v5 = Value::Float(f);
    let r = __v5.json();
    if f.is_finite() {
        assert!(matches!(&r, Ok(j) if j.as_f64().map(|x| x.to_bits()) == Some(f.to_bits()) || (f == 0.0 && j.as_f64() == Some(0.0))));
    } else {
        assert!(matches!(&r, Ok(serde_json::Value::Null)));
    }
    forget(r);
}
/// function values are not representable: an error at top level, never a panic
#[cfg_attr(kani, kani::proof)]
#[cfg_attr(kani, kani::unwind(6))]
#[cfg_attr(kani, kani::stub(alloc::fmt::format, stub_format))]
pub fn c18_function_value_is_error() {
    let f = Value::Function(Arc::new(String::new()), None);
    let r = f.json();
    assert!(r.is_err());
    forget(r);
    forget(f);
}
/// ... and inside a list (the `?` on the nested failure)
#[cfg_attr(kani, kani::proof)]
#[cfg_attr(kani, kani::unwind(6))]
#[cfg_attr(kani, kani::stub(alloc::fmt::format, stub_format))]
pub fn c18_function_value_in_list_is_error() {
    let l = Value::List(Arc::new(vec![Value::Function(Arc::new(String::new()), None)]));
    let r = l.json();
    assert!(r.is_err());
    forget(r);
    forget(l);
}
