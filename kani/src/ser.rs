//! property C17: host data converts to CEL values without loss of structure (one harness per Serializer method group)
use crate::sym::{any, assume};
use cel_interpreter::objects::{Key, Map};
use cel_interpreter::{to_value, Value};
use serde::Serialize;
use std::collections::BTreeMap;
use std::mem::forget;

#[cfg(kani)]
use crate::conv::{fixed_random_state, stub_format};

#[cfg_attr(kani, kani::proof)]
#[cfg_attr(kani, kani::unwind(6))]
pub fn c17_signed_integers_become_int() {
    let a: i8 = any();
    let b: i16 = any();
    let c: i32 = any();
    let d: i64 = any();
    assert!(matches!(to_value(a), Ok(Value::Int(x)) if x == a as i64));
    assert!(matches!(to_value(b), Ok(Value::Int(x)) if x == b as i64));
    assert!(matches!(to_value(c), Ok(Value::Int(x)) if x == c as i64));
    assert!(matches!(to_value(d), Ok(Value::Int(x)) if x == d));
}
#[cfg_attr(kani, kani::proof)]
#[cfg_attr(kani, kani::unwind(6))]
pub fn c17_unsigned_integers_become_uint() {
    let a: u8 = any();
    let b: u16 = any();
    let c: u32 = any();
    let d: u64 = any();
    assert!(matches!(to_value(a), Ok(Value::UInt(x)) if x == a as u64));
    assert!(matches!(to_value(b), Ok(Value::UInt(x)) if x == b as u64));
    assert!(matches!(to_value(c), Ok(Value::UInt(x)) if x == c as u64));
    assert!(matches!(to_value(d), Ok(Value::UInt(x)) if x == d));
}
#[cfg_attr(kani, kani::proof)]
#[cfg_attr(kani, kani::unwind(6))]
pub fn c17_f64_becomes_double() {
    let f: f64 = any();
    assert!(matches!(to_value(f), Ok(Value::Float(x)) if x.to_bits() == f.to_bits()));
}
#[cfg_attr(kani, kani::proof)]
#[cfg_attr(kani, kani::unwind(6))]
pub fn c17_f32_becomes_double() {
    let g: f32 = any();
    assert!(matches!(to_value(g), Ok(Value::Float(x)) if x.to_bits() == (g as f64).to_bits()));
}
#[cfg_attr(kani, kani::proof)]
#[cfg_attr(kani, kani::unwind(6))]
pub fn c17_bool_and_unit() {
    let b: bool = any();
    assert!(matches!(to_value(b), Ok(Value::Bool(x)) if x == b));
    assert!(matches!(to_value(()), Ok(Value::Null)));
}
#[cfg_attr(kani, kani::proof)]
#[cfg_attr(kani, kani::unwind(6))]
pub fn c17_option_is_null_or_the_value() {
    let b: bool = any();
    let o: Option<i32> = if b { Some(any()) } else { None };
    match (o, to_value(o)) {
        (None, Ok(Value::Null)) => {}
        (Some(v), Ok(Value::Int(x))) => assert!(x == v as i64),
        _ => assert!(false),
    }
}
#[derive(Serialize)]
struct Newtype(u16);
#[derive(Serialize)]
struct UnitStruct;

/// sequences and tuples become lists of the converted elements, in order
#[cfg_attr(kani, kani::proof)]
#[cfg_attr(kani, kani::unwind(6))]
pub fn c17_tuples_and_newtypes() {
    let a: i32 = any();
    let b: bool = any();
    let c: u8 = any();
    let r = to_value((a, b, c));
    match &r {
        Ok(Value::List(l)) => {
            assert!(l.len() == 3);
            assert!(matches!(l[0], Value::Int(x) if x == a as i64));
            assert!(matches!(l[1], Value::Bool(x) if x == b));
            assert!(matches!(l[2], Value::UInt(x) if x == c as u64));
        }
        _ => assert!(false),
    }
    forget(r);
    let n: u16 = any();
    assert!(matches!(to_value(Newtype(n)), Ok(Value::UInt(x)) if x == n as u64));
    assert!(matches!(to_value(UnitStruct), Ok(Value::Null)));
    let arr: [i16; 2] = [any(), any()];
    let r = to_value(arr);
    match &r {
        Ok(Value::List(l)) => {
            assert!(l.len() == 2);
            assert!(matches!(l[0], Value::Int(x) if x == arr[0] as i64));
            assert!(matches!(l[1], Value::Int(x) if x == arr[1] as i64));
        }
        _ => assert!(false),
    }
    forget(r);
}

#[derive(Serialize)]
struct S {
    a: i32,
    b: bool,
}
#[derive(Serialize)]
enum E {
    Unit,
    Newtype(i32),
    Tuple(i32, bool),
    Struct { a: u8 },
}
fn get<'a>(m: &'a Map, k: &str) -> Option<&'a Value> {
    m.map.get(&Key::String(std::sync::Arc::new(k.to_string())))
}

/// structs become maps keyed by field name; data-carrying variants become single-entry maps keyed by the variant name
#[cfg_attr(kani, kani::proof)]
#[cfg_attr(kani, kani::unwind(12))]
#[cfg_attr(kani, kani::stub(std::collections::hash_map::RandomState::new, fixed_random_state))]
#[cfg_attr(kani, kani::stub(alloc::fmt::format, stub_format))]
pub fn c17_struct_becomes_map() {
    let a: i32 = any();
    let b: bool = any();
    let r = to_value(S { a, b });
    match &r {
        Ok(Value::Map(m)) => {
            assert!(m.map.len() == 2);
            assert!(matches!(get(m, "a"), Some(Value::Int(x)) if *x == a as i64));
            assert!(matches!(get(m, "b"), Some(Value::Bool(x)) if *x == b));
        }
        _ => assert!(false),
    }
    forget(r);
}
#[cfg_attr(kani, kani::proof)]
#[cfg_attr(kani, kani::unwind(12))]
#[cfg_attr(kani, kani::stub(std::collections::hash_map::RandomState::new, fixed_random_state))]
#[cfg_attr(kani, kani::stub(alloc::fmt::format, stub_format))]
pub fn c17_enum_variants() {
    let a: i32 = any();
    let r = to_value(E::Unit);
    assert!(matches!(&r, Ok(Value::String(s)) if s.as_str() == "Unit"));
    forget(r);
    let r = to_value(E::Newtype(a));
    match &r {
        Ok(Value::Map(m)) => {
            assert!(m.map.len() == 1);
            assert!(matches!(get(m, "Newtype"), Some(Value::Int(x)) if *x == a as i64));
        }
        _ => assert!(false),
    }
    forget(r);
}
#[cfg_attr(kani, kani::proof)]
#[cfg_attr(kani, kani::unwind(12))]
#[cfg_attr(kani, kani::stub(std::collections::hash_map::RandomState::new, fixed_random_state))]
#[cfg_attr(kani, kani::stub(alloc::fmt::format, stub_format))]
pub fn c17_enum_tuple_and_struct_variants() {
    let a: i32 = any();
    let b: bool = any();
    let u: u8 = any();
    let r = to_value(E::Tuple(a, b));
    match &r {
        Ok(Value::Map(m)) => {
            assert!(m.map.len() == 1);
            match get(m, "Tuple") {
                Some(Value::List(l)) => {
                    assert!(l.len() == 2);
                    assert!(matches!(l[0], Value::Int(x) if x == a as i64));
                    assert!(matches!(l[1], Value::Bool(x) if x == b));
                }
                _ => assert!(false),
            }
        }
        _ => assert!(false),
    }
    forget(r);
    let r = to_value(E::Struct { a: u });
    match &r {
        Ok(Value::Map(m)) => {
            assert!(m.map.len() == 1);
            match get(m, "Struct") {
                Some(Value::Map(inner)) => assert!(matches!(get(inner, "a"), Some(Value::UInt(x)) if *x == u as u64)),
                _ => assert!(false),
            }
        }
        _ => assert!(false),
    }
    forget(r);
}
/// map keys: integers, bool and strings are accepted (int -> Key::Int, unsigned -> Key::Uint); other kinds are errors, never panics
#[cfg_attr(kani, kani::proof)]
#[cfg_attr(kani, kani::unwind(12))]
#[cfg_attr(kani, kani::stub(std::collections::hash_map::RandomState::new, fixed_random_state))]
#[cfg_attr(kani, kani::stub(alloc::fmt::format, stub_format))]
pub fn c17_map_keys() {
    let k: i32 = any();
    let u: u16 = any();
    let v: bool = any();
    let mut m1 = BTreeMap::new();
    m1.insert(k, v);
    let r = to_value(m1);
    match &r {
        Ok(Value::Map(m)) => {
            assert!(m.map.len() == 1);
            assert!(matches!(m.map.get(&Key::Int(k as i64)), Some(Value::Bool(x)) if *x == v));
        }
        _ => assert!(false),
    }
    forget(r);
    let mut m2 = BTreeMap::new();
    m2.insert(u, v);
    let r = to_value(m2);
    match &r {
        Ok(Value::Map(m)) => assert!(matches!(m.map.get(&Key::Uint(u as u64)), Some(Value::Bool(x)) if *x == v)),
        _ => assert!(false),
    }
    forget(r);
    let mut m3 = BTreeMap::new();
    m3.insert(v, k);
    let r = to_value(m3);
    match &r {
        Ok(Value::Map(m)) => assert!(matches!(m.map.get(&Key::Bool(v)), Some(Value::Int(x)) if *x == k as i64)),
        _ => assert!(false),
    }
    forget(r);
}
#[cfg_attr(kani, kani::proof)]
#[cfg_attr(kani, kani::unwind(12))]
#[cfg_attr(kani, kani::stub(std::collections::hash_map::RandomState::new, fixed_random_state))]
#[cfg_attr(kani, kani::stub(alloc::fmt::format, stub_format))]
pub fn c17_unsupported_map_keys_are_errors() {
    let k: i32 = any();
    let mut m1 = BTreeMap::new();
    m1.insert((k, k), true);
    let r = to_value(m1);
    assert!(r.is_err());
    forget(r);
    let mut m2: BTreeMap<Option<i32>, bool> = BTreeMap::new();
    m2.insert(None, true);
    let r = to_value(m2);
    assert!(r.is_err());
    forget(r);
    let mut m3: BTreeMap<(), bool> = BTreeMap::new();
    m3.insert((), false);
    let r = to_value(m3);
    assert!(r.is_err());
    forget(r);
}
