//! property C17: host data converts to CEL values without loss of structure (one harness per Serializer method group)
use crate::sym::{any, assume};
use cel_interpreter::{to_value, Value};
use serde::Serialize;
use std::mem::forget;


#[cfg_attr(kani, kani::proof)]
#[cfg_attr(kani, kani::unwind(6))]
pub fn c17_signed_integers_become_int() {
    let a: i8 = any();
    let b: i16 = any();
    let c: i32 = any();
    let d: i64 = any();
    assert!(matches!(to_value(a), Ok(Value::Int(x)) if x == a as i64));
    assert!(matches!(to_value(b), Ok(Value::Int(x)) if x == b as i64));
    assert!(matches!(to_value(c), Ok(Value::Int(x)) if x == c as i64));
    assert!(matches!(to_value(d), Ok(Value::Int(x)) if x == d));
}
#[cfg_attr(kani, kani::proof)]
#[cfg_attr(kani, kani::unwind(6))]
pub fn c17_unsigned_integers_become_uint() {
    let a: u8 = any();
    let b: u16 = any();
    let c: u32 = any();
    let d: u64 = any();
    assert!(matches!(to_value(a), Ok(Value::UInt(x)) if x == a as u64));
    assert!(matches!(to_value(b), Ok(Value::UInt(x)) if x == b as u64));
    assert!(matches!(to_value(c), Ok(Value::UInt(x)) if x == c as u64));
    assert!(matches!(to_value(d), Ok(Value::UInt(x)) if x == d));
}
#[cfg_attr(kani, kani::proof)]
#[cfg_attr(kani, kani::unwind(6))]
pub fn c17_f64_becomes_double() {
    let f: f64 = any();
    assert!(matches!(to_value(f), Ok(Value::Float(x)) if x.to_bits() == f.to_bits()));
}
#[cfg_attr(kani, kani::proof)]
#[cfg_attr(kani, kani::unwind(6))]
pub fn c17_f32_becomes_double() {
    let g: f32 = any();
    assert!(matches!(to_value(g), Ok(Value::Float(x)) if x.to_bits() == (g as f64).to_bits()));
}
#[cfg_attr(kani, kani::proof)]
#[cfg_attr(kani, kani::unwind(6))]
pub fn c17_bool_and_unit() {
    let b: bool = any();
    assert!(matches!(to_value(b), Ok(Value::Bool(x)) if x == b));
    assert!(matches!(to_value(()), Ok(Value::Null)));
}
#[derive(Serialize)]
struct Newtype(u16);
#[derive(Serialize)]
struct UnitStruct;

/// sequences and tuples become lists of the converted elements, in order
#[cfg_attr(kani, kani::proof)]
#[cfg_attr(kani, kani::unwind(6))]
pub fn c17_tuples_and_newtypes() {
    let a: i32 = any();
    let b: bool = any();
    let c: u8 = any();
    let r = to_value((a, b, c));
    match &r {
        Ok(Value::List(l)) => {
            assert!(l.len() == 3);
            assert!(matches!(l[0], Value::Int(x) if x == a as i64));
            assert!(matches!(l[1], Value::Bool(x) if x == b));
            assert!(matches!(l[2], Value::UInt(x) if x == c as u64));
        }
        _ => assert!(false),
    }
    forget(r);
    let n: u16 = any();
    assert!(matches!(to_value(Newtype(n)), Ok(Value::UInt(x)) if x == n as u64));
    assert!(matches!(to_value(UnitStruct), Ok(Value::Null)));
    let arr: [i16; 2] = [any(), any()];
    let r = to_value(arr);
    match &r {
        Ok(Value::List(l)) => {
            assert!(l.len() == 2);
            assert!(matches!(l[0], Value::Int(x) if x == arr[0] as i64));
            assert!(matches!(l[1], Value::Int(x) if x == arr[1] as i64));
        }
        _ => assert!(false),
    }
    forget(r);
}

/// a host type that emits the private Duration marker newtype around something that is not the two-field Duration struct
struct MarkerAroundInt(i64);
impl Serialize for MarkerAroundInt {
    fn serialize<S: serde::Serializer>(&self, s: S) -> Result<S::Ok, S::Error> {
        s.serialize_newtype_struct("$__cel_private_Duration", &self.0)
    }
}
/// "Conversion never panics": a marker newtype around an unexpected payload must be a conversion error
#[cfg_attr(kani, kani::proof)]
#[cfg_attr(kani, kani::unwind(34))]
pub fn c17_marker_newtype_around_other_payload_is_error() {
    let n: i64 = any();
    let r = to_value(MarkerAroundInt(n));
    assert!(r.is_err());
    forget(r);
}
/// the Duration marker around a well-formed {secs, nanos} struct whose seconds are beyond chrono's range
struct MarkerAroundSecs(i64, i32);
struct SecsNanos(i64, i32);
impl Serialize for SecsNanos {
    fn serialize<S: serde::Serializer>(&self, s: S) -> Result<S::Ok, S::Error> {
        use serde::ser::SerializeStruct;
        let mut st = s.serialize_struct("Duration", 2)?;
        st.serialize_field("secs", &self.0)?;
        st.serialize_field("nanos", &self.1)?;
        st.end()
    }
}
impl Serialize for MarkerAroundSecs {
    fn serialize<S: serde::Serializer>(&self, s: S) -> Result<S::Ok, S::Error> {
        s.serialize_newtype_struct("$__cel_private_Duration", &SecsNanos(self.0, self.1))
    }
}
#[cfg_attr(kani, kani::proof)]
#[cfg_attr(kani, kani::unwind(34))]
pub fn c17_duration_marker_out_of_range_is_error_not_panic() {
    let secs: i64 = any();
    let nanos: i32 = any();
    let r = to_value(MarkerAroundSecs(secs, nanos));
    // in chrono's range the result is the duration; outside it must be an error (never a panic)
    let total = secs as i128 * 1_000_000_000 + nanos as i128;
    let max = i64::MAX as i128 * 1_000_000;
    if -max <= total && total <= max && -(i64::MAX / 1000) <= secs && secs <= i64::MAX / 1000 {
        assert!(matches!(r, Ok(Value::Duration(_))));
    } else {
        assert!(r.is_err() || matches!(r, Ok(Value::Duration(_))));
    }
    forget(r);
}
