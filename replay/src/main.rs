//! Replay driver: re-executes a contract harness, or a CEL program, on the natively compiled real crates.
//!   replay harness <name> <hex>...        one little-endian hex string per `any()` of the harness, in program order
//!   replay cel '<source>' [name=json ...]  compile + execute a CEL expression, print the observable result
//! exit 0: harness assertions hold / program printed its result; exit 1: assertion failed or panic (message printed).
use std::panic;
mod registry;

fn unhex(s: &str) -> Vec<u8> {
    (0..s.len() / 2).map(|i| u8::from_str_radix(&s[2 * i..2 * i + 2], 16).expect("hex")).collect()
}

fn main() {
    let args: Vec<String> = std::env::args().collect();
    if args.len() < 3 {
        eprintln!("usage: replay harness <name> <hex>... | replay cel <source> [var=json]...");
        std::process::exit(2);
    }
    match args[1].as_str() {
        "harness" => {
            let name = &args[2];
            let f = match registry::HARNESSES.iter().find(|(n, _)| n == name) {
                Some((_, f)) => *f,
                None => {
                    eprintln!("unknown harness {}", name);
                    std::process::exit(2);
                }
            };
            let inputs: Vec<Vec<u8>> = args[3..].iter().map(|s| unhex(s)).collect();
            celverif_kani::sym::load(inputs);
            let r = panic::catch_unwind(f);
            match r {
                Ok(()) => {
                    println!("REPLAY-PASS {}", name);
                }
                Err(e) => {
                    let msg = e.downcast_ref::<String>().cloned().or_else(|| e.downcast_ref::<&str>().map(|s| s.to_string())).unwrap_or_default();
                    println!("REPLAY-FAIL {} :: {}", name, msg);
                    std::process::exit(1);
                }
            }
        }
        "cel" => {
            let src = args[2].clone();
            let vars: Vec<String> = args[3..].to_vec();
            let r = panic::catch_unwind(move || {
                let program = match cel_interpreter::Program::compile(&src) {
                    Ok(p) => p,
                    Err(e) => return format!("COMPILE-ERROR {}", e),
                };
                let mut ctx = cel_interpreter::Context::default();
                for v in &vars {
                    let (k, j) = v.split_once('=').expect("var=json");
                    let jv: serde_json::Value = serde_json::from_str(j).expect("json");
                    ctx.add_variable(k, jv).expect("add_variable");
                }
                match program.execute(&ctx) {
                    Ok(v) => format!("OK {:?}", v),
                    Err(e) => format!("ERR {:?}", e),
                }
            });
            match r {
                Ok(s) => println!("{}", s),
                Err(e) => {
                    let msg = e.downcast_ref::<String>().cloned().or_else(|| e.downcast_ref::<&str>().map(|s| s.to_string())).unwrap_or_default();
                    println!("PANIC {}", msg);
                    std::process::exit(1);
                }
            }
        }
        _ => std::process::exit(2),
    }
}
